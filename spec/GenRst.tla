------------------------------- MODULE GenRst -------------------------------
(***************************************************************************)
(* Generation over time: cminx_gen_rst() (C19) - or the command line      *)
(* itself, run again into the same output directory (C13, C12, C01) - is   *)
(* called repeatedly from a build that lives on.  Between two calls the    *)
(* sources, the settings file given with -s, or the output tree may have   *)
(* changed.  The statement is about every call: afterwards the output tree *)
(* is what CMinx produces for the sources as they are NOW.                 *)
(*                                                                         *)
(* Impl: the function builds the argument vector and runs the executable   *)
(* unconditionally (execute_process).  D_StampSkipsRun models a wrapper    *)
(* that remembers a fingerprint of what it looked at and returns early     *)
(* when the fingerprint is unchanged; what the fingerprint does not cover  *)
(* (Blind) then goes unnoticed.                                            *)
(*                                                                         *)
(* Two things were added for the changes of round 9 (state that outlives   *)
(* one call): the SHAPE of the tree changes between calls (a sub-directory *)
(* loses its only *.cmake file, or gets it back), and the caller SWITCHES  *)
(* to another output directory.  Every call regenerates the directory it   *)
(* is aimed at and nothing else (OtherTargetUntouched).  The harness runs  *)
(* a history as separate processes (routes "cmake", "cli") or as calls of  *)
(* cminx.main() inside ONE process (route "inproc"), where caches, module  *)
(* level dictionaries and class attributes survive from call to call.      *)
(***************************************************************************)
EXTENDS Integers, Sequences, FiniteSets, TLC, Json

CONSTANTS Dev, MaxSteps,
          Blind      \* D_StampSkipsRun: the edit kinds the fingerprint does not see

\* a *.cmake source, a *.CMAKE source, the YAML file given with -s, and a source whose content changes while its
\* modification time stays older than the generated pages (cp -p, rsync -t, a restored backup, an extracted archive)
\* "shape": the set of directories that hold a *.cmake file changes
EditKinds == {"lower", "upper", "settings", "backdated", "shape"}
Targets == {1, 2}

VARIABLES ver,     \* [kind -> version] of the inputs as they are now
          out,     \* per output directory: [gen: a tree was generated, ver: the input versions it was generated from, complete: no page missing]
          target,  \* the output directory the calls are aimed at
          stamp,   \* what the wrapper remembers (deviation only)
          hist     \* the actions so far
vars == <<ver, out, target, stamp, hist>>

NoStamp == [k \in EditKinds \ Blind |-> -1]
NoOut == [gen |-> FALSE, ver |-> [k \in EditKinds |-> -1], complete |-> FALSE]
Init == /\ ver = [k \in EditKinds |-> 0] /\ out = [t \in Targets |-> NoOut] /\ target = 1
        /\ stamp = NoStamp /\ hist = <<>>

Edit(k) == /\ Len(hist) < MaxSteps /\ ver' = [ver EXCEPT ![k] = @ + 1]
           /\ hist' = Append(hist, "edit-" \o k) /\ UNCHANGED <<out, target, stamp>>
\* somebody (a clean-up, the user) removes a generated page
DeletePage == /\ Len(hist) < MaxSteps /\ out[target].gen /\ out[target].complete
              /\ out' = [out EXCEPT ![target].complete = FALSE]
              /\ hist' = Append(hist, "delete-page") /\ UNCHANGED <<ver, target, stamp>>
\* the caller aims the following calls at another output directory (once: from the first to the second)
SwitchOutput == /\ Len(hist) < MaxSteps /\ target = 1 /\ target' = 2
                /\ hist' = Append(hist, "switch-output") /\ UNCHANGED <<ver, out, stamp>>
Fingerprint == [k \in EditKinds \ Blind |-> ver[k]]
Call ==
  /\ Len(hist) < MaxSteps
  /\ IF "D_StampSkipsRun" \in Dev /\ stamp = Fingerprint
     THEN UNCHANGED <<out, stamp>>                                   \* "up to date": nothing is run
     ELSE /\ out' = [out EXCEPT ![target] = [gen |-> TRUE, ver |-> ver, complete |-> TRUE]]   \* the executable runs: the tree is regenerated
          /\ stamp' = IF "D_StampSkipsRun" \in Dev THEN Fingerprint ELSE NoStamp
  /\ hist' = Append(hist, "call") /\ UNCHANGED <<ver, target>>

EditLower == Edit("lower")
EditUpper == Edit("upper")
EditSettings == Edit("settings")
EditBackdated == Edit("backdated")
EditShape == Edit("shape")
Next == EditLower \/ EditUpper \/ EditSettings \/ EditBackdated \/ EditShape \/ DeletePage \/ SwitchOutput \/ Call
Spec == Init /\ [][Next]_vars

JustCalled == Len(hist) > 0 /\ hist[Len(hist)] = "call"
\* C19: after every call the output tree is the one the command line produces for the current inputs
C19_TreeIsCurrent == JustCalled => out[target].gen /\ out[target].ver = ver /\ out[target].complete
\* C18 over time: a step changes only the output directory it is aimed at
OtherTargetUntouched == [][\A t \in Targets : out'[t] # out[t] => t = target]_vars
Emit == JustCalled => PrintT(<<"BEH", ToJson([hist |-> hist])>>)
=============================================================================
