------------------------------- MODULE GenRst -------------------------------
(***************************************************************************)
(* Generation over time: cminx_gen_rst() (C19) - or the command line      *)
(* itself, run again into the same output directory (C13, C12, C01) - is   *)
(* called repeatedly from a build that lives on.  Between two calls the    *)
(* sources, the settings file given with -s, or the output tree may have   *)
(* changed.  The statement is about every call: afterwards the output tree *)
(* is what CMinx produces for the sources as they are NOW.                 *)
(*                                                                         *)
(* Impl: the function builds the argument vector and runs the executable   *)
(* unconditionally (execute_process).  D_StampSkipsRun models a wrapper    *)
(* that remembers a fingerprint of what it looked at and returns early     *)
(* when the fingerprint is unchanged; what the fingerprint does not cover  *)
(* (Blind) then goes unnoticed.                                            *)
(***************************************************************************)
EXTENDS Integers, Sequences, FiniteSets, TLC, Json

CONSTANTS Dev, MaxSteps,
          Blind      \* D_StampSkipsRun: the edit kinds the fingerprint does not see

\* a *.cmake source, a *.CMAKE source, the YAML file given with -s, and a source whose content changes while its
\* modification time stays older than the generated pages (cp -p, rsync -t, a restored backup, an extracted archive)
EditKinds == {"lower", "upper", "settings", "backdated"}

VARIABLES ver,     \* [kind -> version] of the inputs as they are now
          out,     \* [gen: a tree was generated, ver: the input versions it was generated from, complete: no page missing]
          stamp,   \* what the wrapper remembers (deviation only)
          hist     \* the actions so far
vars == <<ver, out, stamp, hist>>

NoStamp == [k \in EditKinds \ Blind |-> -1]
Init == /\ ver = [k \in EditKinds |-> 0] /\ out = [gen |-> FALSE, ver |-> [k \in EditKinds |-> -1], complete |-> FALSE]
        /\ stamp = NoStamp /\ hist = <<>>

Edit(k) == /\ Len(hist) < MaxSteps /\ ver' = [ver EXCEPT ![k] = @ + 1]
           /\ hist' = Append(hist, "edit-" \o k) /\ UNCHANGED <<out, stamp>>
\* somebody (a clean-up, the user) removes a generated page
DeletePage == /\ Len(hist) < MaxSteps /\ out.gen /\ out.complete
              /\ out' = [out EXCEPT !.complete = FALSE]
              /\ hist' = Append(hist, "delete-page") /\ UNCHANGED <<ver, stamp>>
Fingerprint == [k \in EditKinds \ Blind |-> ver[k]]
Call ==
  /\ Len(hist) < MaxSteps
  /\ IF "D_StampSkipsRun" \in Dev /\ stamp = Fingerprint
     THEN UNCHANGED <<out, stamp>>                                   \* "up to date": nothing is run
     ELSE /\ out' = [gen |-> TRUE, ver |-> ver, complete |-> TRUE]   \* the executable runs: the tree is regenerated
          /\ stamp' = IF "D_StampSkipsRun" \in Dev THEN Fingerprint ELSE NoStamp
  /\ hist' = Append(hist, "call") /\ UNCHANGED ver

EditLower == Edit("lower")
EditUpper == Edit("upper")
EditSettings == Edit("settings")
EditBackdated == Edit("backdated")
Next == EditLower \/ EditUpper \/ EditSettings \/ EditBackdated \/ DeletePage \/ Call
Spec == Init /\ [][Next]_vars

JustCalled == Len(hist) > 0 /\ hist[Len(hist)] = "call"
\* C19: after every call the output tree is the one the command line produces for the current inputs
C19_TreeIsCurrent == JustCalled => out.gen /\ out.ver = ver /\ out.complete
Emit == JustCalled => PrintT(<<"BEH", ToJson([hist |-> hist])>>)
=============================================================================
