"""Checks C02 C03 C08 C09 C11: Aggregator.tla model-checked, behaviours replayed (A), traces validated (B)."""
import json
import os
import random
from concurrent.futures import ProcessPoolExecutor

import agg
import lib

# ---- TLC configurations: (MC module, cfg constants) per property and tier
BASE_CFG = """CONSTANT CmdSeq <- Cmds
CONSTANT Prefix <- Pre
CONSTANT Pats <- MCPats
CONSTANT Dev <- {dev}
CONSTANT DocChoices <- {doc}
CONSTANT FlagSets <- {flags}
CONSTANT MaxLen = {maxlen}
CONSTANT MaxDepth = {maxdepth}
INIT Init
NEXT Next
VIEW View
{invs}
"""


def cfg(invs, maxlen, maxdepth, dev="NoDev", doc="Both", flags="OnlyAllOn", emit=True):
    lines = ["INVARIANT " + i for i in invs]
    if emit:
        lines.append("INVARIANT Emit")
    return BASE_CFG.format(dev=dev, doc=doc, flags=flags, maxlen=maxlen, maxdepth=maxdepth, invs="\n".join(lines))


PROJ = {"C02": agg.proj_c02, "C03": agg.proj_c03, "C09": agg.proj_c09, "C11": agg.proj_c11}

_CTX = {}


def _init_worker(src_dir):
    os.environ["CMINX_SRC"] = src_dir
    lib.CMINX_SRC = src_dir
    lib.use_repo_sources()


def features(prog, cmds, inc):
    """Facts about an abstract program that known-finding signatures may refer to."""
    f = {"doc_impl_def": False, "doc_class_flag_off": False, "generic_compound": False,
         "add_test_value_clash": False, "cmd_named_generic_command": False}
    pend = False
    for p in prog:
        c = cmds[p["ci"] - 1]
        k = c["k"]
        if pend and k in ("function", "macro") and p["d"]:
            f["doc_impl_def"] = True
        pend = k in ("cpp_member", "cpp_constructor", "ct_add_test", "ct_add_section")
        if k == "cpp_class" and p["d"] and not inc.get("cpp_class", True):
            f["doc_class_flag_off"] = True
        if c.get("cpds") and p["d"]:
            f["generic_compound"] = True
        if k == "generic_command":
            f["cmd_named_generic_command"] = True
        if k == "add_test":
            a = c["a"]
            try:
                np_ = a.index("NAME")
                name = a[np_ + 1]
                rest = [x for j, x in enumerate(a) if j not in (np_, np_ + 1)]
                if name in rest or "NAME" in rest:
                    f["add_test_value_clash"] = True
            except (ValueError, IndexError):
                pass
    return f


def replay_chunk(args):
    pid, chunk, cmds, pats, seed = args
    out = []
    proj = PROJ.get(pid)
    for n, beh in chunk:
        prog, inc = beh["prog"], beh["inc"]
        # consecutive runs in one process use different strip patterns (anything cached between runs shows)
        agg.PREFIX = ["_p_", "_q_", "arg_"][n % 3]
        agg.GENERIC_PATTERN = (n // 3) % 2 == 1
        via_main = pid in ("C03", "C09") and n % 5 == 0
        if via_main and pid == "C03":
            # every fifth program takes the command-line route with the settings in a -s file and a trigger string of
            # two words; doccomments without the trigger carry a line that shares its first word
            src, meta = agg.concretize(prog, cmds, seed * 1000003 + n, trigger=agg.TRIGGER_2W, decoy=":param zz: not the trigger")
            status, text, _, err = agg.run_via_main(src, inc, pats, agg.TRIGGER_2W)
        elif via_main:
            # (C09: the member strip pattern arrives through the settings file)
            src, meta = agg.concretize(prog, cmds, seed * 1000003 + n)
            status, text, _, err = agg.run_via_main(src, inc, pats, agg.TRIGGER)
        else:
            src, meta = agg.concretize(prog, cmds, seed * 1000003 + n)
            settings = agg.make_settings(inc, pats)
            status, text, _, err = agg.run_real(src, settings)
        case = {"prog": [{"k": cmds[p["ci"] - 1]["k"], "d": p["d"], "a": cmds[p["ci"] - 1]["ord"]} for p in prog],
                "inc": inc, "source": src, "features": features(prog, cmds, inc), "route": "cminx.main -s" if via_main else "Documenter"}
        if status != "ok":
            out.append((n, case, "page", status + " " + text, "real pipeline raised on an in-domain program"))
            continue
        try:
            _, views = agg.page_views(text)
            obs = proj(views)
        except Exception as e:   # page not readable by the projector: the observation is the page
            out.append((n, case, "readable page", text, "projector failed: %r" % (e,)))
            continue
        exp = proj(agg.ideal_views(beh["ideal"], meta))
        imp = proj(agg.ideal_views(beh["impl"], meta))
        case["obs_equals_impl_model"] = (obs == imp)
        if obs != exp:
            out.append((n, case, exp, obs, "projection of the generated page differs from the ideal"))
        elif obs != imp:
            out.append((n, case, imp, obs, "DRIFT"))
        else:
            out.append((n, None, None, None, None))
    return out


def replay_c08_chunk(args):
    pid, chunk, cmds, pats, seed = args
    out = []
    allon = {k: True for k in ["function", "macro", "cpp_class", "cpp_attr", "cpp_constructor", "cpp_member",
                               "ct_add_test", "add_test", "ct_add_section", "option"]}
    for n, beh in chunk:
        prog, inc = beh["prog"], beh["inc"]
        src, meta = agg.concretize(prog, cmds, seed * 1000003 + n)
        case = {"prog": [{"k": cmds[p["ci"] - 1]["k"], "d": p["d"], "a": cmds[p["ci"] - 1]["ord"]} for p in prog],
                "inc": inc, "source": src, "features": features(prog, cmds, inc)}
        s1, t1, _, _ = agg.run_real(src, agg.make_settings(inc, pats))
        s0, t0, _, _ = agg.run_real(src, agg.make_settings(allon, pats))
        if s1 != "ok" or s0 != "ok":
            out.append((n, case, "page", [s1, t1[:300], s0, t0[:300]], "real pipeline raised on an in-domain program"))
            continue
        try:
            _, v1 = agg.page_views(t1)
            _, v0 = agg.page_views(t0)
        except Exception as e:
            out.append((n, case, "readable page", t1, "projector failed: %r" % (e,)))
            continue
        # variant outside the generator's domain (a command between a declaration and its definition): only the
        # pair comparison applies - the doccomment-stemming entries must render as under the defaults
        gap = None
        lines = src.split("\n")
        decl = [k for k, l in enumerate(lines) if l.strip().lower().startswith(("cpp_member(", "cpp_constructor(", "ct_add_test(", "ct_add_section("))
                and k + 1 < len(lines) and lines[k + 1].strip().lower().startswith(("function(", "macro("))]
        if decl and n % 2 == 0:
            k = decl[(n // 2) % len(decl)]
            filler = ["cpp_attr(C gap_attr)", "option(GAP_OPT \"h\")", "message(gap)", "add_test(NAME gap_t COMMAND p)"][(n // 4) % 4]
            src2 = "\n".join(lines[:k + 1] + [filler] + lines[k + 1:])
            g1, gt1, _, _ = agg.run_real(src2, agg.make_settings(inc, pats))
            g0, gt0, _, _ = agg.run_real(src2, agg.make_settings(allon, pats))
            if g1 == "ok" and g0 == "ok":
                try:
                    gd1 = agg.doc_part(agg.page_views(gt1)[1], meta)
                    gd0 = agg.doc_part(agg.page_views(gt0)[1], meta)
                    if gd1 != gd0 and not case["features"]["doc_class_flag_off"]:
                        gap = (dict(case, source=src2), gd0, gd1)
                except Exception:
                    pass
        ideal = agg.doc_part(agg.ideal_views(beh["idealOn"], meta), meta, structural=True)
        imp = agg.doc_part(agg.ideal_views(beh["impl"], meta), meta, structural=True)
        obs = agg.doc_part(v1, meta, structural=True)
        case["obs_equals_impl_model"] = (obs == imp)
        d1, d0 = agg.doc_part(v1, meta), agg.doc_part(v0, meta)
        shown = [x for x in agg.undocumented_shown(v1, meta) if not inc[x[0]] and x[0] == x[1]]
        if beh["dimpl"]:
            # an implementing definition carries a doccomment of its own: the specification states no ideal for such
            # programs, only the pair comparison applies - whatever stems from a doccomment renders as under defaults
            case["features"]["documented_implementation"] = True
            if d1 != d0 and not case["features"]["doc_class_flag_off"]:
                out.append((n, case, d0, d1, "rendering of a doccomment-stemming entry differs from its rendering under default settings"))
            else:
                out.append((n, None, None, None, None))
            continue
        if obs != ideal:
            out.append((n, case, ideal, obs, "doccomment-stemming entries differ from the ideal under these flags"))
        elif d1 != d0:
            out.append((n, case, d0, d1, "rendering of a doccomment-stemming entry differs from its rendering under default settings"))
        elif shown:
            out.append((n, case, [], shown, "an undocumented K-command is still shown although include_undocumented_K is off"))
        elif gap:
            out.append((n, gap[0], gap[1], gap[2], "with a command between a declaration and its definition, a doccomment-stemming entry renders differently than under default settings"))
        elif obs != imp:
            out.append((n, case, imp, obs, "DRIFT"))
        else:
            out.append((n, None, None, None, None))
    return out


def replay(run, pid, res, seed, judge=lambda beh: True, limit=None):
    cmds = res.lines["CMDS"][0]
    pats = res.lines["PATS"][0]
    behs = [b for b in res.lines.get("BEH", []) if judge(b)]
    if limit and len(behs) > limit:
        rng = random.Random(seed)
        behs = rng.sample(behs, limit)
        run.exhaustive = False
    items = list(enumerate(behs))
    chunks = [(pid, items[i::lib.NCPU * 4], cmds, pats, seed) for i in range(lib.NCPU * 4)]
    chunks = [c for c in chunks if c[1]]
    with ProcessPoolExecutor(max_workers=lib.NCPU, initializer=_init_worker, initargs=(lib.CMINX_SRC,)) as ex:
        for part in ex.map(replay_c08_chunk if pid == "C08" else replay_chunk, chunks):
            for n, case, exp, obs, why in part:
                run.behaviours += 1
                beh = behs[n]
                run.count(json.dumps(beh["prog"]) + json.dumps(beh["inc"], sort_keys=True))
                if case is None:
                    continue
                if why == "DRIFT":
                    run.drifted({"program": case["prog"], "impl_model": exp, "observed": obs})
                    continue
                run.violation(case, exp, obs, why)
    if behs:
        b = behs[0]
        src, _ = agg.concretize(b["prog"], cmds, seed)
        run.sample({"abstract_program": [[cmds[p["ci"] - 1]["k"], p["d"]] for p in b["prog"]], "concrete": src})
    return len(behs)


# ---------------------------------------------------------------- C04: pairs of layouts
def norm_crlf(page):
    return "\n".join(l for l in page.replace("\r", "").split("\n") if l.strip())


def c04_chunk(args):
    chunk, cmds, pats, seed, trivia, nvar = args
    out = []
    for n, beh in chunk:
        prog, inc = beh["prog"], beh["inc"]
        settings = agg.make_settings(inc, pats)
        res = None
        for flt in (False, True):
            items = agg.items_of(prog, cmds, seed * 1000003 + n, first_line_text=flt)
            base = agg.render_baseline(items)
            st0, page0, _, _ = agg.run_real(base, settings)
            if st0 != "ok":
                res = ({"source": base, "features": {"variant": "baseline", "first_line_text": flt}}, "page", page0,
                       "the pipeline raised on the baseline layout")
                break
            variants = [("layout-%d" % v, agg.render_variant(items, trivia, seed * 7 + n * 31 + v)) for v in range(nvar)]
            variants.append(("crlf", base.replace("\n", "\r\n")))
            # the line ending between ')' and the next command's name replaced by one space (the tokens stay the same)
            import re as _re
            variants.append(("joined", _re.sub(r"\)\n(?=[A-Za-z_])", ") ", base)))
            # a doccomment that begins on the line of the previous command, or behind a bracket comment: same tokens
            variants.append(("doc-joined", _re.sub(r"\)\n(?=#\[\[\[)", ") ", base)))
            variants.append(("doc-behind-comment", _re.sub(r"(?m)^(#\[\[\[)", r"#[[ c ]]   \1", base)))
            for vname, src in variants:
                st, page, _, _ = agg.run_real(src, settings)
                if st != "ok":
                    res = ({"source": src, "baseline": base, "features": {"variant": vname, "first_line_text": flt}}, page0, page,
                           "the pipeline raised on a layout variant of a module it accepts")
                    break
                same = (norm_crlf(page) == norm_crlf(page0)) if vname == "crlf" else (page == page0)
                if not same:
                    res = ({"source": src, "baseline": base, "features": {"variant": vname, "first_line_text": flt}}, page0, page,
                           "the generated page depends on layout, comments, command-name case or line endings")
                    break
            if res:
                break
        out.append((n, res))
    return out


def replay_c04(run, res, trivia, seed, limit, nvar):
    cmds = res.lines["CMDS"][0]
    pats = res.lines["PATS"][0]
    behs = [b for b in res.lines.get("BEH", []) if not b["dimpl"]]
    if limit and len(behs) > limit:
        behs = random.Random(seed).sample(behs, limit)
        run.exhaustive = False
    items = list(enumerate(behs))
    chunks = [(items[i::lib.NCPU * 4], cmds, pats, seed, trivia, nvar) for i in range(lib.NCPU * 4)]
    chunks = [c for c in chunks if c[0]]
    with ProcessPoolExecutor(max_workers=lib.NCPU, initializer=_init_worker, initargs=(lib.CMINX_SRC,)) as ex:
        for part in ex.map(c04_chunk, chunks):
            for n, r in part:
                run.behaviours += 1
                run.notes["layout_pairs"] = run.notes.get("layout_pairs", 0) + 2 * (nvar + 1)
                run.count(json.dumps(behs[n]["prog"]))
                if r:
                    case, exp, got, why = r
                    run.violation(case, exp, got, why)
    if behs:
        its = agg.items_of(behs[0]["prog"], cmds, seed)
        run.sample({"baseline": agg.render_baseline(its), "variant": agg.render_variant(its, trivia, seed)})


# ---------------------------------------------------------------- C05: well-formed programs are processed to completion
def completion_chunk(args):
    chunk, cmds, pats, seed, trivia = args
    out = []
    for n, beh in chunk:
        items = agg.items_of(beh["prog"], cmds, seed * 1000003 + n)
        src = agg.render_variant(items, trivia, seed * 13 + n)
        st, page, _, _ = agg.run_real(src, agg.make_settings(beh["inc"], pats))
        if st == "ok" and "#[[[" in src:
            # history: the same module with every doccomment turned into a plain bracket comment of the same length, in the
            # same process right after it - the same commands at the same offsets, now undocumented, are a valid file too
            # (nothing the first module left behind may make the second one fail)
            twin = src.replace("#[[[", "#[[ ")
            st2, page2, _, _ = agg.run_real(twin, agg.make_settings(beh["inc"], pats))
            if st2 != "ok":
                out.append((n, (src + "\n# ---- then, in the same process ----\n" + twin, page2)))
                continue
        out.append((n, None if st == "ok" else (src, page)))
    return out


def replay_completion(run, res, trivia, seed, limit):
    cmds = res.lines["CMDS"][0]
    pats = res.lines["PATS"][0]
    behs = [b for b in res.lines.get("BEH", [])]
    if limit and len(behs) > limit:
        behs = random.Random(seed).sample(behs, limit)
    items = list(enumerate(behs))
    chunks = [(items[i::lib.NCPU * 2], cmds, pats, seed, trivia) for i in range(lib.NCPU * 2)]
    chunks = [c for c in chunks if c[0]]
    with ProcessPoolExecutor(max_workers=lib.NCPU, initializer=_init_worker, initargs=(lib.CMINX_SRC,)) as ex:
        for part in ex.map(completion_chunk, chunks):
            for n, r in part:
                run.behaviours += 1
                run.count("completion:" + json.dumps(behs[n]["prog"]))
                if r:
                    run.violation({"source": r[0], "features": {"balanced_blocks_varied_case": True}}, "processed to completion", r[1],
                                  "a well-formed module with balanced blocks is not processed to completion")
