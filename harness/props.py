"""Per-property checks.  Each function takes a lib.Run, does its work and returns the `rule` text."""
import json

import lib
from aggfamily import cfg, replay

TAGS = ("BEH", "CMDS", "PATS")


def tlc_agg(run, name, module, cfgtext, **kw):
    res = lib.run_tlc(module, cfgtext, tags=TAGS, **kw)
    run.add_tlc(name, res, vacuity_exempt=kw.get("vacuity_exempt", ()))
    return res


AGG = {
    "C02": dict(invs=["C02_EntriesMatch"], judge=lambda b: True,
                quick=[("MC_C02a", 4, 2), ("MC_C02b", 6, 3)], thorough=[("MC_C02a", 5, 3), ("MC_C02b", 7, 3)],
                sim=[("MC_C02a", 14, 3), ("MC_C02b", 16, 4)],
                rule="TLC enumerates well-formed programs over two alphabets (a: definitions, set, option, add_test, "
                     "generic commands incl. compound arguments and a command named generic_command; b: classes, "
                     "attributes, members, constructors, tests, sections with implementing definitions), each command "
                     "with/without doccomment; projection compared: kind/name/order of top-level directives, arguments "
                     "of generic invocations, member names per class"),
    "C03": dict(invs=["C03_Signatures"], judge=lambda b: True,
                quick=[("MC_C03", 6, 3)], thorough=[("MC_C03", 7, 3)], sim=[("MC_C03", 18, 4)],
                rule="TLC enumerates well-formed programs over definitions with 0-2 parameters (strip pattern matching "
                     "some parameters and some names), cmake_parse_arguments at every position, member/test "
                     "declarations with implementing definitions (documented or not), ordinary commands; projection "
                     "compared: the argument of every function directive stemming from a function/macro"),
    "C09": dict(invs=["C09_Classes"], judge=lambda b: True,
                quick=[("MC_C09", 5, 2), ("MC_C09b", 8, 1)], thorough=[("MC_C09", 7, 3), ("MC_C09b", 9, 1)], sim=[("MC_C09", 16, 4)],
                rule="TLC enumerates class structures (bases, attributes with/without default, members with 0-2 types "
                     "incl. args, constructors, implementing functions/macros with 1-4 parameters under the member "
                     "strip pattern, nesting); projection compared: py:class/py:method/py:attribute nesting and order, "
                     "signatures, param/type fields, macro notes, bases, inner-class lists"),
    "C11": dict(invs=["C11_Tests"], judge=lambda b: True,
                quick=[("MC_C11", 4, 2)], thorough=[("MC_C11", 5, 2)], sim=[("MC_C11", 14, 3)],
                rule="TLC enumerates ct_add_test/ct_add_section/add_test commands with NAME at several positions, "
                     "with/without EXPECTFAIL, arguments equal to the name or containing a keyword, sections nested in "
                     "test functions; projection compared: function directives carrying a CMakeTest/CTest warning"),
}
AGG["C08"] = dict(invs=["C08_DocStemming", "C08_OffRemoves"], judge=lambda b: True, flags="Flags",
                  quick=[("MC_C08a", 5, 2), ("MC_C08b", 4, 2)], thorough=[("MC_C08a", 6, 3), ("MC_C08b", 5, 2)],
                  sim=[("MC_C08a", 12, 3), ("MC_C08b", 10, 3)],
                  rule="TLC enumerates programs over classes/attributes/members/functions (a) and macros/constructors/"
                       "tests/sections/add_test/options inside a documented class (b) under every combination of the "
                       "include_undocumented_* flags of the kinds that occur (16 resp. 64 combinations); each behaviour "
                       "is run through the real Documenter under its flags and under the defaults; compared: the "
                       "doccomment-stemming entries against the ideal and against their rendering under defaults, "
                       "and absence of undocumented K entries when K is off")
STD_INVS = ["StackRefinesInv", "NoFailure"]


def current_dev(module):
    import re
    txt = open(lib.SPEC + "/" + module + ".tla").read()
    m = re.search(r"^CurrentDev == \{(.*)\}", txt, re.M)
    return bool(m and m.group(1).strip())


def agg_property(run):
    pid = run.pid
    spec = AGG[pid]
    q = run.tier == "quick"
    if pid == "C02":
        dispatch_hygiene(run, pid)
    for module, maxlen, maxdepth in spec["quick" if q else "thorough"]:
        flags = spec.get("flags", "OnlyAllOn")
        res = tlc_agg(run, "%s(len<=%d,depth<=%d)" % (module, maxlen, maxdepth), module,
                      cfg(spec["invs"] + STD_INVS, maxlen, maxdepth, flags=flags))
        if current_dev(module):
            # the invariants above hold for the design (Dev = {}); behaviours for replay come from the
            # model of the code as it is (Dev = CurrentDev) so that known findings can be told from new ones
            res = tlc_agg(run, "%s(len<=%d,depth<=%d,Dev=Current)" % (module, maxlen, maxdepth), module,
                          cfg([], maxlen, maxdepth, dev="CurrentDev", flags=flags))
        replay(run, pid, res, run.seed, judge=spec["judge"], limit=(9000 if pid == "C08" else 20000) if q else 120000)
    # long programs: random behaviours of the same specification (invariants are checked on every state)
    for module, maxlen, maxdepth in spec["sim"]:
        res = tlc_agg(run, "%s(simulate,len<=%d)" % (module, maxlen), module,
                      cfg([] if current_dev(module) else spec["invs"] + STD_INVS, maxlen, maxdepth,
                          flags=spec.get("flags", "OnlyAllOn"), dev="CurrentDev"), simulate=150 if q else 2500, depth=3 * maxlen,
                      seed=run.seed, workers=8, coverage=False)
        replay(run, pid, res, run.seed + 1, judge=lambda b, j=spec["judge"], m=maxlen: j(b) and len(b["prog"]) > 6,
               limit=4000 if q else 40000)
    # binding B: executions of the real aggregator on programs TLC did not choose, validated by TLC
    import aggtrace
    traces = aggtrace.random_batch(run.seed, 400 if q else 2000, flags="random" if pid == "C08" else "default")
    for k in range(0, len(traces), 500):       # batches: TLC deserialises one JSON document per run
        aggtrace.validate_batch(run, traces[k:k + 500])
    if traces and "events" in traces[0]:
        run.sample({"recorded_trace": traces[0]["id"], "events": len(traces[0]["events"]),
                    "first_event": traces[0]["events"][0] if traces[0]["events"] else None})
    run.exhaustive = True
    run.assumptions += ["re.sub and str.upper are trusted library functions (their results are inputs of the spec)",
                        "strip patterns are drawn from {'', '^_p_'}; the kwargs trigger string is ':keyword'",
                        "the concretiser (abstract program -> CMake text) and the projector (page -> entry views) "
                        "are trusted; the projector is cross-checked against docutils by check C07"]
    return spec["rule"] + ("; exhaustive up to the stated length/depth bound, then TLC -simulate for programs up to "
                           "the longer bound; distinct = distinct (program, flags) pairs replayed through the real Documenter")


C20_CFG = """CONSTANT MaxOps = {maxops}
CONSTANT MaxDepth = {maxdepth}
CONSTANT MaxReads = {reads}
CONSTANT TextMenu <- Texts
CONSTANT TitleMenu <- Titles
CONSTANT ItemMenu <- Items
CONSTANT OpKinds <- {ops}
INIT Init
NEXT Next
VIEW View
INVARIANT HeadingFramed
INVARIANT IndentExact
INVARIANT OptionsFirst
INVARIANT OrderPreserved
INVARIANT ClearKeepsHeading
INVARIANT IndentIsDepth
INVARIANT Emit
PROPERTY ToTextIsPure
"""


def c20(run):
    import rstw
    q = run.tier == "quick"
    confs = [("AllOps", 3, 3, 2)] if q else [("AllOps", 4, 3, 2), ("NoTitleOps", 5, 4, 1)]
    for ops, maxops, maxdepth, reads in confs:
        res = lib.run_tlc("MC_C20", C20_CFG.format(maxops=maxops, maxdepth=maxdepth, reads=reads, ops=ops))
        run.add_tlc("MC_C20(%s,ops<=%d,depth<=%d)" % (ops, maxops, maxdepth), res, vacuity_exempt=("SetTitle", "AddDoctest", "AddSection", "ChangeTitle", "AddList"))
        rstw.replay(run, res.lines.get("BEH", []), run.seed, limit=None if q else 150000)
    # nesting to six levels, exhaustively: chains of directives with a field somewhere (levels the pipeline never builds)
    res = lib.run_tlc("MC_C20", C20_CFG.format(maxops=7, maxdepth=6, reads=1, ops="ChainOps").replace("TitleMenu <- Titles", "TitleMenu <- OneTitle")
                      .replace("TextMenu <- Texts", "TextMenu <- OneText"), coverage=False)
    run.add_tlc("MC_C20(ChainOps: nesting to depth 6, exhaustive)", res)
    rstw.replay(run, [b for b in res.lines.get("BEH", []) if sum(1 for o in b["hist"] if o["op"] == "directive") >= 4], run.seed, limit=6000 if q else 60000)
    res = lib.run_tlc("MC_C20", C20_CFG.format(maxops=7, maxdepth=6, reads=1, ops="DeepOps"), simulate=60 if q else 600, depth=9,
                      seed=run.seed, workers=8, coverage=False)
    run.add_tlc("MC_C20(DeepOps: nesting to depth 6, simulate)", res)
    rstw.replay(run, [b for b in res.lines.get("BEH", []) if sum(1 for o in b["hist"] if o["op"] == "directive") >= 4], run.seed, limit=3000 if q else 30000)
    # growth beyond C20: section() and doctest() (conformance of the specification to the code; IndentExact is not
    # demanded below a section, which restarts at indent 0 whatever encloses it)
    res = lib.run_tlc("MC_C20", C20_CFG.format(maxops=3 if q else 4, maxdepth=2, reads=1, ops="GrowthOps"))
    run.add_tlc("MC_C20(GrowthOps: section, doctest)", res, vacuity_exempt=("SetTitle", "AddList", "AddOption", "ChangeTitle", "ClearWriter"))
    rstw.replay(run, res.lines.get("BEH", []), run.seed, limit=None if q else 100000)
    res = lib.run_tlc("MC_C20", C20_CFG.format(maxops=9, maxdepth=4, reads=2, ops="AllOps"), simulate=300 if q else 4000,
                      depth=14, seed=run.seed, workers=8, coverage=False)
    run.add_tlc("MC_C20(simulate,ops<=9)", res)
    rstw.replay(run, res.lines.get("BEH", []), run.seed + 1, limit=6000 if q else 60000)
    rstw.fixed_cases(run)
    # binding B: the writer calls of real pipeline runs (random modules, the repository's samples) replayed by TLC
    import rstwtrace
    rstwtrace.run(run, run.seed, 60 if q else 800)
    run.assumptions += ["single-line field values; simple_table is not modelled; section/doctest are modelled for conformance only",
                        "the renderer of specification lines into text (harness/rstw.py render_line) is trusted"]
    return ("TLC enumerates API histories (text with 1-3 lines and own leading spaces, field, bulleted/enumerated list, "
            "directive, option, title change, clear, to_text on any writer incl. detached ones) up to the bound and checks "
            "HeadingFramed, IndentExact, OptionsFirst, OrderPreserved, ClearKeepsHeading, ToTextIsPure on the "
            "specification; every history ending in to_text is replayed on the real RSTWriter and each serialisation is "
            "compared character for character with the specification's Lines(), serialised twice, and the document "
            "object compared before/after; header character lists vary with the seed")


WALK_CFG = """CONSTANT Dev <- {dev}
CONSTANT Trees <- {trees}
CONSTANT PatternSets <- {pats}
CONSTANT OutKinds <- {outs}
CONSTANT OutSub <- MCOutSub
CONSTANT RecChoices <- BothB
CONSTANT AutoChoices <- BothB
CONSTANT SepChoices <- {seps}
CONSTANT LinkNames <- MCLinkNames
CONSTANT MaxWalkDepth = 6
INIT Init
NEXT Next
VIEW View
{invs}
"""
WALK_INVS = {
    "C13": ["C13_NoDivergence", "C13_PagesAreProcessedFiles", "C13_OnePagePerFile", "C13_OneIndexPerProcessedDir",
            "C13_NoIndexOnStdout"],
    "C14": ["C14_ToctreeExact", "C14_NoDangling", "C14_Reachable", "C14_IndexTitle"],
    "C18": ["C18_NoWritesWithoutOut", "C18_NoPrintsWithOut", "C18_WritesUnderOut", "C18_SortedPerDirectory"],
    "C15": ["C15_ProcessedIffNotMatched", "C15_NotDescended", "C15_ExcludedNotScanned", "C15_WholeInputExcluded"],
}


def walk_cfg(pid, dev, trees, pats, outs="OutAll", seps="SepColon", emit=True, check=True):
    invs = ["INVARIANT " + i for i in (WALK_INVS[pid] if check else [])] + (["INVARIANT Emit"] if emit else [])
    return WALK_CFG.format(dev=dev, trees=trees, pats=pats, outs=outs, seps=seps, invs="\n".join(invs))


def walk_property(run):
    import walkh
    pid = run.pid
    q = run.tier == "quick"
    trees, pats = ("SmallTrees", "SmallPatternSets") if q else ("MCTrees", "MCPatternSets")
    outs = "OutFile" if pid == "C14" else "OutAll"
    seps = "Seps" if pid == "C14" else "SepColon"
    # the design (Dev = {}) satisfies the invariants
    res = lib.run_tlc("MC_Walk", walk_cfg(pid, "NoDev", trees, pats, outs, seps, emit=not current_dev("MC_Walk")))
    run.add_tlc("MC_Walk(%s,%s,Dev={})" % (trees, pats), res)
    if current_dev("MC_Walk"):
        res = lib.run_tlc("MC_Walk", walk_cfg(pid, "CurrentDev", trees, pats, outs, seps, check=False))
        run.add_tlc("MC_Walk(%s,%s,Dev=Current)" % (trees, pats), res)
    if pid == "C18":
        walkh.replay_c18(run, res.lines.get("BEH", []), run.seed, limit=1500 if q else 20000)
        walkh.single_file_output_case(run)
        # over time, inside one process: calls aimed at a second output directory leave the first one alone, and the
        # second one gets every page (GenRst.tla: SwitchOutput, OtherTargetUntouched)
        regen_layer(run, "inproc")
        run.assumptions += ["inputs that trigger diagnostics are excluded from the stdout comparison (fixture files are clean)"]
        return ("TLC checks the effect invariants (no writes without -o, no prints with -o, file-system changes only at/below "
                "an output directory inside the input tree, pages of a directory together and sorted) on the walk "
                "specification; each terminal behaviour is run through the real cminx.main twice in fresh sandboxes - with "
                "-o (output absolute / relative / parent of the input / inside the input tree at the top or in a "
                "sub-directory, pre-populated or not, four settings variants) and without - with complete before/after "
                "snapshots (paths and bytes) of the sandbox and captured stdout; compared: created/changed/deleted paths "
                "against the output directory, and stdout against the concatenation of the written pages")
    walkh.replay(run, pid, res.lines.get("BEH", []), run.seed, limit=6000 if q else 60000)
    if pid == "C14":
        walkh.two_inputs_case(run)
        # the same tree documented again by the same process after a directory lost / regained its only CMake file
        regen_layer(run, "inproc")
        # the walk as it was before the repair of F17 (linked directories stay in the toctree) violates C14_NoDangling
        res0 = lib.run_tlc("MC_Walk", walk_cfg(pid, "BeforeF17", "SmallTrees", "SmallPatternSets", outs, seps, emit=False).replace(
            "\n".join("INVARIANT " + i for i in WALK_INVS["C14"]), "INVARIANT C14_NoDangling"), want_violation=True, coverage=False)
        if not res0.violated:
            raise lib.MachineryError("Walk.tla: D_LinkedDirsListed no longer violates C14_NoDangling")
    if pid == "C15":
        walkh.script_entry_case(run)
        walkh.file_input_case(run)
    if pid == "C13":
        regen_layer(run, "cli")
        regen_layer(run, "inproc")
    # binding B: recorded walks over random trees (deeper, more names and patterns than the menus), validated by TLC
    import walktrace
    walktrace.run(run, pid, run.seed, 160 if q else 3000)
    run.assumptions += ["pathspec (gitwildmatch) is a trusted library; the specification's reading of it (Walk.Match) is "
                        "checked against observed match_file results by the C15 check",
                        "str.endswith/lower/split/sorted results on names are inputs of the specification",
                        "symlinks, special files and follow_symlinks are out of scope"]
    return ("TLC explores cminx.document's walk over every tree of the menu x pattern set x recursive x auto-exclusion x "
            "output location (none/outside/inside at top/inside a sub-directory) x every directory-listing permutation, "
            "checks the %s invariants on the specification, and each terminal behaviour is materialised in a sandbox and "
            "run through the real cminx.document with the listing orders imposed through os.walk; compared: files under "
            "the output directory / documented files / toctrees and titles of every index.rst against the ideal computed "
            "from the initial tree" % pid)


C12_CFG = """CONSTANT Dev <- {dev}
CONSTANT Files <- MCFiles
CONSTANT Seps <- MCSeps
CONSTANT PrefixSrcs <- MCPrefixSrcs
CONSTANT Spellings <- MCSpellings
CONSTANT Modes <- MCModes
CONSTANT ModDocs <- MCModDocs
CONSTANT HeaderLists <- MCHeaders
CONSTANT Befores <- MCBefores
INIT Init
NEXT Next
{invs}
"""


def c12(run):
    import naming
    q = run.tier == "quick"
    invs = ["C12_Names", "C12_StartsWithPrefixSep", "C12_ExtDropped", "C12_Injective"]
    dev = current_dev("MC_C12")
    res = lib.run_tlc("MC_C12", C12_CFG.format(dev="NoDev", invs="\n".join("INVARIANT " + i for i in invs + ([] if dev else ["Emit"]))))
    run.add_tlc("MC_C12(Dev={})", res)
    if dev:
        res = lib.run_tlc("MC_C12", C12_CFG.format(dev="CurrentDev", invs="INVARIANT Emit"))
        run.add_tlc("MC_C12(Dev=Current)", res)
    naming.replay(run, res.lines.get("BEH", []), run.seed, limit=2500 if q else 60000)
    naming.case_collision(run)
    regen_layer(run, "cli")       # titles follow the settings of THIS run, also into an output directory of an earlier one
    # settings shared between the inputs of one command line would violate C12_Names (witness that the invariant bites)
    res0 = lib.run_tlc("MC_C12", C12_CFG.format(dev="SharedSettings", invs="INVARIANT C12_Names"), want_violation=True, coverage=False)
    if not res0.violated:
        raise lib.MachineryError("Naming.tla: D_SettingsSharedAcrossInputs no longer violates C12_Names")
    run.assumptions += ["module doccomments at indentation 0 (re-indentation belongs to C04)",
                        "upper-case .CMAKE extensions are not judged for extension dropping"]
    return ("TLC enumerates run descriptors (file at depth 1-3 incl. dotted/dashed/upper-case names x separator x prefix "
            "source absent/-p/config x spelling of the input path x directory/single-file mode x @module doccomment "
            "absent/unnamed/named with/without body x next command documented or not x extension options x header "
            "lists x another directory / lone file given earlier on the same command line), checks C12_Names/StartsWithPrefixSep/ExtDropped/Injective on the specification, and replays "
            "them through the real cminx.main in a sandbox; compared: title with over/underline, the module "
            "directive (position, count, name, content) and the first entry's doc text")


C16_CFG = """CONSTANT Dev <- NoDev
CONSTANT Options <- MCOptions
CONSTANT FocusSets <- {focus}
CONSTANT AllowBad = {bad}
INIT Init
NEXT Next
INVARIANT C16_Precedence
INVARIANT C16_WrongTypeRejected
INVARIANT C16_ExcludesUnion
INVARIANT Emit
"""


def c16(run):
    import confh
    import re
    q = run.tier == "quick"
    txt = open(lib.SPEC + "/MC_C16.tla").read()
    kinds = {m.group(1): m.group(2) for m in re.finditer(r'O\("([\w.]+)", "(\w+)"', txt)}
    for k in ["function", "macro", "cpp_class", "cpp_attr", "cpp_constructor", "cpp_member", "ct_add_test", "add_test",
              "ct_add_section", "option"]:
        kinds["input.include_undocumented_" + k] = "bool"
    res = lib.run_tlc("MC_C16", C16_CFG.format(focus="Singles", bad="TRUE"))
    run.add_tlc("MC_C16(single options, all subsets of sources, wrong types)", res)
    confh.replay(run, res.lines.get("BEH", []), kinds, run.seed)
    res = lib.run_tlc("MC_C16", C16_CFG.format(focus="Pairs", bad="FALSE"))
    run.add_tlc("MC_C16(pairs of options)", res)
    confh.replay(run, res.lines.get("BEH", []), kinds, run.seed, limit=400 if q else None)
    run.assumptions += ["wrong-typed values are judged only in the source that is in effect",
                        "StrSeq leniency (string -> list) and the logging section are not judged",
                        "relative_to_config with a directory given on the command line is not judged"]
    return ("TLC enumerates, for every option of the input/output/rst sections, all subsets of the sources able to set it "
            "(command line, -s file, user file; packaged defaults below) incl. one wrong-typed value, and pairs of options; "
            "checks C16_Precedence, C16_WrongTypeRejected, C16_ExcludesUnion on the source-stacking machine; each "
            "behaviour is replayed twice (two value assignments) through the real cminx.main with synthesised YAML files, "
            "HOME/XDG_CONFIG_HOME in a sandbox and cminx.document wrapped; compared: the fields of the Settings object, "
            "the concatenated exclude filters, the resolved output directory, rejection")


RUNS_CFG = """CONSTANT Dev <- NoDev
CONSTANT InputMenu <- MCInputs
CONSTANT MaxInputs = {maxin}
CONSTANT Spellings <- MCSpellings
CONSTANT Cwds <- MCCwds
CONSTANT Locations <- MCLocations
CONSTANT Perms <- MCPerms
CONSTANT HashSeeds <- MCHashSeeds
CONSTANT GenInputs <- MCGenInputs
CONSTANT ExtraMenu <- MCExtras
INIT Init
NEXT Next
INVARIANT C17_FunctionOfInputAndSettings
INVARIANT C17_SharedSettingsUntouched
INVARIANT Emit
"""


def c17(run):
    import runsh
    q = run.tier == "quick"
    res = lib.run_tlc("MC_Runs", RUNS_CFG.format(maxin=3), tags=("BEH", "GEN"))
    run.add_tlc("MC_Runs(inputs<=3)", res)
    runsh.replay_c17(run, res.lines.get("BEH", []), run.seed, limit=350 if q else 6000)
    # over time (GenRst.tla): what an earlier run left in the output directory, or in the interpreter, is no input either
    regen_layer(run, "cli")
    regen_layer(run, "inproc")
    run.assumptions += ["two directory inputs in one run write the same <out>/index.rst: colliding output paths are out of scope",
                        "moved trees keep their leaf name; listing order is imposed through os.walk"]
    return ("TLC enumerates run descriptors (spelling of the input path rel/abs/trailing slash/'.', working directory, "
            "absolute location of the tree, listing permutation, hash seed, repeat, prefix) x command lines of 1-3 inputs "
            "(one directory, single files before/after) and checks on the main()-loop machine that what a page is made of "
            "depends on input and settings only and that the shared Settings object is never modified; a seeded sample of "
            "the behaviours is executed for real (one OS process each: cwd, PYTHONHASHSEED, os.walk order imposed) and every "
            "generated file is compared byte for byte with the canonical run of each input alone")


GEN_CFG_T = "CONSTANT Dev <- {dev}\nCONSTANT MaxSteps = {n}\nCONSTANT Blind <- {blind}\nINIT Init\nNEXT Next\nINVARIANT C19_TreeIsCurrent\nPROPERTY OtherTargetUntouched\nINVARIANT Emit\n"


def regen_layer(run, route):
    """GenRst.tla: repeated generation on one build tree with edits in between - through cminx_gen_rst (route "cmake",
    C19) or by running the command line again into the same output directory (route "cli": C13, C12, C01, C17), or as calls of cminx.main() inside one process
    (route "inproc": C13, C14, C17, C18)"""
    import runsh
    q = run.tier == "quick"
    n = 3 if q else 4
    res2 = lib.run_tlc("MC_GenRst", GEN_CFG_T.format(dev="NoDev", n=n, blind="NoBlind"))
    run.add_tlc("MC_GenRst(steps<=%d, route %s)" % (n, route), res2)
    runsh.replay_genrst(run, res2.lines.get("BEH", []), route)
    note = ("GenRst histories: pages of a source that has gone away since an earlier call may stay in the output directory "
            "(CMinx never deletes pages); everything else must equal a fresh command-line run")
    if note not in run.assumptions:
        run.assumptions.append(note)
    if route == "inproc":
        return
    blind = "BlindUpperSettings" if route == "cmake" else "BlindSettingsBackdated"
    res0 = lib.run_tlc("MC_GenRst", GEN_CFG_T.format(dev="Stamp", n=3, blind=blind), want_violation=True, coverage=False)
    if not res0.violated:
        raise lib.MachineryError("GenRst.tla: a generator that skips work on an unchanged fingerprint no longer violates C19_TreeIsCurrent")


def c19(run):
    import runsh
    res = lib.run_tlc("MC_Runs", RUNS_CFG.format(maxin=1).replace("INVARIANT Emit\n", ""), tags=("BEH", "GEN"))
    run.add_tlc("MC_Runs(C19_Argv assumption + main loop)", res)
    cases = res.lines["GEN"][0]
    runsh.replay_c19(run, cases)
    # over time (GenRst.tla): edits of sources / settings file and deleted pages between repeated calls
    q = run.tier == "quick"
    regen_layer(run, "cmake")
    run.assumptions += ["arguments containing ';' (CMake list splitting) are excluded",
                        "CMake 3.25 script mode (cmake -P) stands for the configure step"]
    return ("TLC checks C19_Argv (the argument vector cminx_gen_rst builds reads back as input, -o output, the extra "
            "arguments verbatim, -r iff directory) for every input kind x extra-argument list of the menu; each case is "
            "run through the real cmake/cminx.cmake with CMINX_EXECUTABLE bound to a recording shim that runs the "
            "working-tree CMinx: compared are the logged argv, fatal failure of cmake iff CMinx fails (and the script not "
            "continuing), and the output tree against the direct command-line run")


DOC_CFG = """CONSTANT Dev <- {dev}
CONSTANT Indents <- {ind}
CONSTANT Firsts <- {first}
CONSTANT Bodies <- {bodies}
CONSTANT Leaders <- {leaders}
INIT Init
NEXT Next
{invs}
"""


def doc_tlc(run, pid, ind, first, bodies, leaders, seed, pipeline_every):
    import docclean
    inv = {"C01": "C01_CleanIsIdentity", "C04": "C04_IndentIrrelevant"}[pid]
    dev = current_dev("MC_DocClean")
    res = lib.run_tlc("MC_DocClean", DOC_CFG.format(dev="NoDev", ind=ind, first=first, bodies=bodies, leaders=leaders,
                                                     invs="INVARIANT %s" % inv + ("" if dev else "\nINVARIANT Emit")), coverage=False)
    run.add_tlc("MC_DocClean(%s,%s,%s,%s,Dev={})" % (ind, first, bodies, leaders), res)
    if dev:
        res = lib.run_tlc("MC_DocClean", DOC_CFG.format(dev="CurrentDev", ind=ind, first=first, bodies=bodies, leaders=leaders,
                                                         invs="INVARIANT Emit"), coverage=False)
        run.add_tlc("MC_DocClean(%s,%s,%s,%s,Dev=Current)" % (ind, first, bodies, leaders), res)
    docclean.replay(run, pid, res.lines.get("BEH", []), seed, pipeline_every)


def c01(run):
    q = run.tier == "quick"
    if q:
        doc_tlc(run, "C01", "IndSmall", "NoFirst", "Bodies2x2", "BothLeaders", run.seed, 7)
        doc_tlc(run, "C01", "IndSmall", "NoFirst", "Bodies1x3", "Hash", run.seed, 5)
    else:
        doc_tlc(run, "C01", "IndBig", "NoFirst", "Bodies2x2full", "BothLeaders", run.seed, 11)
        doc_tlc(run, "C01", "IndBig", "NoFirst", "Bodies1x4", "Hash", run.seed, 7)
        doc_tlc(run, "C01", "IndSmall", "NoFirst", "Bodies3x1", "BothLeaders", run.seed, 3)
    regen_layer(run, "cli")       # the doc lines of the sources as they are now, also after a back-dated edit
    import docclean as _dc
    _dc.fixed_cases(run)
    _dc.big_file_case(run)
    _dc.twin_cases(run)
    run.assumptions += ["character classes: '#', '[', ']', ':', '.', space, tab, one letter class, one digit class, one "
                        "non-ASCII class (members drawn per occurrence from seeded pools)",
                        "bodies containing ']]' are outside the canonical form and skipped at pipeline level"]
    return ("TLC enumerates every canonical doccomment block over the class alphabet (indentation x body lines) and checks "
            "C01_CleanIsIdentity on the transcription of clean_doc_lines; every block is fed to the real clean_doc_lines, and "
            "a stratified share of them goes through the whole pipeline attached to each of 13 entry kinds (function, macro, "
            "set, option, generic, class, attribute, member, constructor, test, section, add_test, module) at nesting depth "
            "0-2, where the doc lines (between two unique marker lines) must appear once, contiguously, verbatim and inside "
            "the item's directive")


GEN_CFG = """CONSTANT BracketLevels = {{0, 1, 2}}
CONSTANT Idents <- {idents}
CONSTANT ArgMenu <- {args}
CONSTANT SepMenu <- {seps}
CONSTANT EndMenu <- {ends}
CONSTANT GapMenu <- {gaps}
CONSTANT FaultMenu <- {faults}
CONSTANT MaxCmds = {maxcmds}
CONSTANT MaxArgs = {maxargs}
CONSTANT MaxDepth = {maxdepth}
CONSTANT MaxLen = {maxlen}
INIT Init
NEXT Next
INVARIANT RefAgree
"""
# name: idents, args, seps, ends, gaps, cmds, args, depth, len
C05_CONFIGS = {   # ... , cmds, args, depth, len quick, len thorough
    "unquoted": ("IdentsOne", "Unq", "SepsPlain", "EndsNl", "NoGaps", 1, 2, 0, 9, 12),
    "quoted": ("IdentsOne", "Quo", "SepsPlain", "EndsNl", "NoGaps", 1, 2, 0, 11, 16),
    "bracket": ("IdentsOne", "Bra", "SepsPlain", "EndsNl", "NoGaps", 1, 2, 0, 14, 20),
    "comments": ("IdentsOne", "SmallArgs", "SepsComments", "Ends", "NoGaps", 1, 2, 1, 12, 14),
    "mixed2": ("IdentsS", "MixedArgs", "SepsPlain", "Ends", "Gaps", 2, 2, 1, 10, 12),
    "compound": ("IdentsOne", "SmallArgs", "SepsPlain", "EndsNl", "NoGaps", 1, 3, 2, 10, 13),
}


def gen_cfg(c, faults="NoFaults", maxlen=None):
    idents, args, seps, ends, gaps, mc, ma, md, ml = c[:9]
    return GEN_CFG.format(idents=idents, args=args, seps=seps, ends=ends, gaps=gaps, faults=faults, maxcmds=mc, maxargs=ma,
                          maxdepth=md, maxlen=maxlen or ml)


KNOWN_PROCESSORS = {"function", "macro", "cmake_parse_arguments", "ct_add_test", "ct_add_section", "set", "cpp_class",
                    "cpp_member", "cpp_constructor", "cpp_attr", "add_test", "option"}


def dispatch_hygiene(run, pid):
    """The aggregator dispatches by attribute name (process_<command>): every such attribute that is not the processor
    of a CMake command the documentation names must not capture a user command of that name (Aggregator.tla models
    dispatch by attribute existence; this enumerates the attributes that exist on the real class)."""
    import agg
    from cminx.aggregator import DocumentationAggregator
    from rstparse import Page
    names = sorted(a[len("process_"):] for a in dir(DocumentationAggregator) if a.startswith("process_"))
    for nm in names:
        if nm in KNOWN_PROCESSORS:
            continue
        for documented in (False, True):
            src = ("#[[[\n# doc of a user command\n#]]\n" if documented else "") + "%s(alpha beta)\nfunction(after_it)\nendfunction()\n" % nm
            status, text, _, _ = agg.run_real(src, agg.make_settings())
            run.count("dispatch:%s:%s" % (nm, documented))
            case = {"source": src, "features": {"attribute": "process_" + nm}}
            if status != "ok":
                run.violation(case, "processed to completion", text, "a user command named like an internal process_* attribute is not processed as an ordinary command")
                continue
            heads = [(n.name, n.arg) for n in Page(text).nodes if n.name != "module"]
            want = ([("function", "%s(alpha beta)" % nm)] if documented else []) + [("function", "after_it()")]
            if pid == "C02" and heads != want:
                run.violation(case, want, heads, "a user command named like an internal process_* attribute does not get the entry of an ordinary command")


def c05(run):
    import lexh
    q = run.tier == "quick"
    parse_layer(run, "C05")
    for name in C05_CONFIGS:
        c = C05_CONFIGS[name]
        res = lib.run_tlc("MC_C05", gen_cfg(c, maxlen=c[8] if q else c[9]), coverage=False)
        run.add_tlc("MC_C05(%s)" % name, res)
        lexh.replay(run, "C05", res.lines.get("BEH", []), run.seed, limit=None if q else 60000)
    # ground truth for the generator's reading of the reference grammar: CMake's own argument boundaries
    allb = []
    for name in ("unquoted", "quoted", "bracket", "compound"):
        c = C05_CONFIGS[name]
        allb += lib.run_tlc("MC_C05", gen_cfg(c, maxlen=c[8] - 1), coverage=False).lines.get("BEH", [])
    lexh.cmake_trace_check(run, allb, run.seed, limit=400 if q else 6000)
    full = ("IdentsS", "MixedArgs", "SepsComments", "Ends", "Gaps", 4, 4, 2, 60)
    res = lib.run_tlc("MC_C05", gen_cfg(full), simulate=25 if q else 600, depth=40, seed=run.seed, workers=8, coverage=False)
    run.add_tlc("MC_C05(simulate, files up to 60 symbols)", res)
    lexh.replay(run, "C05", [b for b in res.lines.get("BEH", []) if len(b["text"]) > 20], run.seed + 1, limit=3000 if q else 30000)
    dispatch_hygiene(run, "C05")
    lexh.big_file_check(run)
    # balanced function/macro/class blocks, documented or not, in any letter case and layout: processed to completion
    import aggfamily
    cat = lib.run_tlc("MC_C05", gen_cfg(C05_CONFIGS["bracket"], maxlen=6), coverage=False, tags=("TRIVIA",)).lines["TRIVIA"][0]
    trivia = {k: [lexh.concretize(t, run.seed + j)[0] for j, t in enumerate(v)] for k, v in cat.items()}
    for module, maxlen, maxdepth in [("MC_C02b", 5, 3), ("MC_C03", 5, 3)]:
        r2 = tlc_agg(run, "%s(len<=%d): blocks in varied case/layout" % (module, maxlen), module, cfg([], maxlen, maxdepth))
        aggfamily.replay_completion(run, r2, trivia, run.seed, limit=600 if q else 6000)
    # binding B: token streams of the real lexer on files TLC did not choose
    import aggtrace
    import glob as _glob
    import random as _random
    rng = _random.Random(run.seed)
    traces = []
    for f in sorted(_glob.glob(lib.REPO + "/tests/test_samples/*.cmake") + _glob.glob(lib.REPO + "/tests/examples/*.cmake")):
        traces.append(lexh.trace_of(f, open(f, encoding="utf-8").read()))
    for i in range(40 if q else 400):
        traces.append(lexh.trace_of("random-%d" % i, aggtrace.gen_program(rng, rng.randint(5, 40))))
    # strings with lexical faults: the error spans of the real lexer must be the model's
    alphabet = ['a', '"', '\\', '(', ')', '#', '[', ']', '=', ' ', '\n', 't', ';']
    for i in range(150 if q else 3000):
        traces.append(lexh.trace_of("noise-%d" % i, "".join(rng.choice(alphabet) for _ in range(rng.randint(1, 14)))))
    lexh.validate_traces(run, traces, label="TraceLex(fixtures, random modules, noise strings)")
    lexh.corpus_check(run, run.seed, 45 if q else None)
    run.assumptions += ["the modules shipped with CMake 3.25 (/usr/share/cmake-3.25, 974 files) stand for real-world input; a "
                        "module is demanded only if CMake itself parses it (cmake -P on the text wrapped in a never-called function)"]
    run.assumptions += ["class alphabet: letters (t n r apart), 'module', digit, non-ASCII, other punctuation and the characters "
                        "CMake.g4 names; members are drawn per occurrence from seeded pools",
                        "legacy unquoted arguments, BOM and bracket levels > 2 are outside the statement / the model"]
    return ("TLC builds files from the productions of cmake-language(7) (identifier, parenthesised arguments, unquoted / quoted / "
            "bracket arguments incl. every escape sequence, continuation, special characters inside each form, non-ASCII, nested "
            "parentheses, separation by spaces/newlines/CRLF/line comments of all four shapes/bracket comments of level 0-2) so "
            "that commands and argument boundaries are known by construction, lexes each file with the step-machine model of the "
            "generated lexer and checks RefAgree; every file is concretised and run through the real lexer, parser and "
            "Documenter: compared are acceptance, the command sequence and the argument texts/positions of the public parse "
            "tree (verdict) and the token stream of the real lexer against the model's (drift)")


C06_CONFIGS = {
    "args": ("IdentsOne", "SmallArgs", "SepsPlain", "EndsNl", "NoGaps", 1, 2, 1, 9, 12),
    "comments": ("IdentsOne", "SmallArgs", "SepsComments", "Ends", "Gaps", 1, 1, 0, 9, 12),
    "two": ("IdentsS", "MixedArgs", "SepsPlain", "Ends", "Gaps", 2, 1, 0, 9, 12),
}


CMINX_CFG = """CONSTANT Dev <- {dev}
CONSTANT MaxFiles = {n}
CONSTANT Modes <- AllModes
INIT Init
NEXT Next
{invs}
"""


PARSE_CFG = """CONSTANT Dev <- {dev}
CONSTANT MaxTokens = {n}
INIT Init
NEXT Next
{invs}
"""
PARSE_INVS = ["AcceptsExactlyTheLanguage", "FailsAtFirstBadToken", "OneEventPerCommand", "DocAttachment", "DocumentedThenCommand",
              "ArgumentBoundaries", "ModuleOnlyFirst", "EventsInSourceOrder", "Emit"]


def parse_layer(run, pid):
    """CMakeParse.tla: the parser between lexer and aggregator, every token stream up to a length bound"""
    import parseh
    q = run.tier == "quick"
    n = 7 if q else 9
    res = lib.run_tlc("MC_CMakeParse", PARSE_CFG.format(dev="NoDev", n=n, invs="\n".join("INVARIANT " + i for i in PARSE_INVS)))
    run.add_tlc("MC_CMakeParse(tokens<=%d)" % n, res)
    parseh.replay(run, pid, res.lines.get("BEH", []), run.seed, limit=4000 if q else 60000)
    if pid == "C05":
        # binding B: parses of files TLC did not choose (fixtures, random and mutilated modules, CMake's own modules)
        parseh.validate(run, run.seed, 60 if q else 600, 40 if q else 500)
    res0 = lib.run_tlc("MC_CMakeParse", PARSE_CFG.format(dev="ModuleAnywhere", n=4, invs="INVARIANT AcceptsExactlyTheLanguage"),
                       want_violation=True, coverage=False)
    if not res0.violated:
        raise lib.MachineryError("CMakeParse.tla: a machine that takes '@module' anywhere no longer violates AcceptsExactlyTheLanguage")


def c06(run):
    import lexh
    q = run.tier == "quick"
    parse_layer(run, "C06")
    # the pipeline as one machine (CMinx.tla): fault kinds x file order x input mode, failure propagation
    invs = ["C06_NoPageForFaulty", "C06_FailsLoudly", "C06_NoPartialView", "StopsAtFirstFault", "Emit"]
    res = lib.run_tlc("MC_CMinx", CMINX_CFG.format(dev="NoDev", n=3 if q else 4, invs="\n".join("INVARIANT " + i for i in invs)))
    run.add_tlc("MC_CMinx(files<=%d)" % (3 if q else 4), res)
    lexh.replay_pipeline(run, res.lines.get("BEH", []))
    # the model of the code before the repair of F2 violates C06 (kept as a witness that the invariants bite)
    res0 = lib.run_tlc("MC_CMinx", CMINX_CFG.format(dev="BeforeF2", n=2, invs="INVARIANT C06_FailsLoudly"), want_violation=True, coverage=False)
    if not res0.violated:
        raise lib.MachineryError("CMinx.tla: the pre-F2 deviations no longer violate C06_FailsLoudly (vacuous invariant?)")
    run.notes["pre_F2_model_violates"] = res0.violated
    for name, c in C06_CONFIGS.items():
        res = lib.run_tlc("MC_C05", gen_cfg(c, faults="Faults", maxlen=c[8] if q else c[9]), coverage=False)
        run.add_tlc("MC_C05(%s + faults)" % name, res)
        lexh.replay_c06(run, res.lines.get("BEH", []), run.seed, limit=750 if q else 25000)
    run.assumptions += ["a fault is demanded to fail only if CMake itself reports a parse error for the faulted file (cmake -P on the "
                        "text wrapped in a never-called function) or it is a backslash before an alphanumeric other than t n r "
                        "(invalid per cmake-language(7)); faults inside comments and bracket arguments are not judged",
                        "exit status: an exception or SystemExit with non-zero code from cminx.main"]
    return ("TLC builds valid files from the reference productions and injects one fault string (stray or unterminated quote, "
            "backslash before a letter, lone backslash, unterminated #[[ / #[=[, extra parentheses, bare word) at every position; "
            "the specification predicts whether lexer or parser notice it; each faulted file is run through the real cminx.main "
            "as a single input and inside a directory next to a healthy file: for files the reference rejects an error, a "
            "non-zero status and no .rst are demanded, and no page may ever be written when the lexer skipped characters")


def c04(run):
    import aggfamily
    import lexh
    q = run.tier == "quick"
    # (a) doccomment re-indentation on the cleaning function
    doc_tlc(run, "C04", "IndBig", "SomeFirst", "Bodies2x2" if q else "Bodies2x2full", "BothLeaders" if q else "Hash", run.seed, 0)
    # (b) trivia between tokens does not change the token sequence (RefAgree over the comment-rich menu)
    c = C05_CONFIGS["comments"]
    res = lib.run_tlc("MC_C05", gen_cfg(c, maxlen=c[8] if q else c[9]), coverage=False, tags=("BEH", "TRIVIA"))
    run.add_tlc("MC_C05(comments: same tokens under every trivia)", res)
    lexh.replay(run, "C04", res.lines.get("BEH", []), run.seed, limit=8000 if q else 60000)
    cat = res.lines["TRIVIA"][0]
    trivia = {k: [lexh.concretize(t, run.seed + j)[0] for j, t in enumerate(v)] for k, v in cat.items()}
    # (c) pairs: every witness program of the aggregator model in a baseline layout and in variant layouts
    for module, maxlen, maxdepth in ([("MC_C02a", 3, 2), ("MC_C02b", 5, 3), ("MC_C03", 5, 3)] if q else [("MC_C02a", 4, 2), ("MC_C02b", 6, 3), ("MC_C03", 6, 3), ("MC_C09", 5, 2)]):
        r2 = tlc_agg(run, "%s(len<=%d)" % (module, maxlen), module, cfg([], maxlen, maxdepth))
        aggfamily.replay_c04(run, r2, trivia, run.seed, limit=700 if q else 8000, nvar=3 if q else 10)
    run.assumptions += ["trivia only between tokens; at least one whitespace is kept where two arguments would otherwise touch",
                        "a level-0 bracket comment whose text begins with '[' is CMinx's doccomment opener and not used as a comment",
                        "CRLF variant compared after deleting CR characters and whitespace-only lines"]
    return ("(a) TLC checks C04_IndentIrrelevant on the transcription of clean_doc_lines for every block x indentation (also "
            "with text on the opening line and the @module forms) and every block is replayed as an indented/unindented pair on "
            "the real function; (b) TLC checks that files built from the same tokens with any trivia of the catalogue (spaces, "
            "tabs, LF/CRLF, four line-comment shapes, bracket comments of level 0-2 whose text looks like code or doccomment "
            "delimiters) lex to the same tokens, replayed on the real lexer/parser; (c) every witness program of the aggregator "
            "model is rendered in a baseline layout and in seeded variant layouts (catalogue trivia between all tokens, "
            "doccomment blocks re-indented with spaces/tabs, command names re-cased, CRLF) and the pages of the real pipeline "
            "are compared byte for byte")


C10_CFG = """CONSTANT Dev <- {dev}
CONSTANT ArgMenu <- MCArgs
CONSTANT MaxValues = {maxv}
CONSTANT Kinds <- BothKinds
INIT Init
NEXT Next
{invs}
"""


def c10(run):
    import valuesh
    q = run.tier == "quick"
    dev = current_dev("MC_C10")
    invs = ["INVARIANT C10_SetEntry", "INVARIANT C10_OptionEntry"]
    res = lib.run_tlc("MC_C10", C10_CFG.format(dev="NoDev", maxv=3 if q else 4, invs="\n".join(invs + ([] if dev else ["INVARIANT Emit"]))), coverage=False)
    run.add_tlc("MC_C10(Dev={})", res)
    if dev:
        res = lib.run_tlc("MC_C10", C10_CFG.format(dev="CurrentDev", maxv=3 if q else 4, invs="INVARIANT Emit"), coverage=False)
        run.add_tlc("MC_C10(Dev=Current)", res)
    valuesh.replay(run, res.lines.get("BEH", []), run.seed)
    valuesh.crlf_cases(run)
    valuesh.twin_cases(run)
    valuesh.empty_doc_cases(run)
    run.assumptions += ["argument values without line breaks (three fixed CRLF cases with values that span lines aside); option() with 2 or 3 arguments; set() with a name",
                        "help text and default of an option are compared as written (quotes included)"]
    return ("TLC enumerates set() with 0..n values and option() with/without default over 15 argument texts (identifier, "
            "unquoted incl. escaped quotes at either end and ';', quoted incl. empty, one character, escaped quotes at either "
            "end, non-ASCII, variable reference, bracket incl. quotes inside) and checks value-count -> type, quote stripping and "
            "joining against the statement; every command is run through the real pipeline (top level, function body, class) "
            "and the data directive's fields and note compared")


C07_CFG = """CONSTANT MaxOps = 0
CONSTANT MaxDepth = 0
CONSTANT MaxReads = 0
CONSTANT TextMenu = {}
CONSTANT TitleMenu = {}
CONSTANT ItemMenu = {}
CONSTANT OpKinds = {}
CONSTANT Pages <- AllPages
INIT EInit
NEXT ENext
INVARIANT C07_TitleModuleEntries
INVARIANT C07_ContentInsideOwnDirective
INVARIANT C07_EntriesDisjoint
INVARIANT IndentExact
INVARIANT OptionsFirst
INVARIANT EEmit
"""


def c07(run):
    import c07h
    res = lib.run_tlc("MC_C07", C07_CFG, coverage=False)
    run.add_tlc("MC_C07(all pages of the menu)", res)
    c07h.replay(run, res.lines.get("BEH", []))
    # the repository's own samples, parsed the same way (binding B for the page structure)
    import glob
    import agg
    n = 0
    for f in sorted(glob.glob(lib.REPO + "/tests/test_samples/*.cmake") + glob.glob(lib.REPO + "/tests/examples/*.cmake")):
        status, text, _, _ = agg.run_real(open(f, encoding="utf-8").read(), agg.make_settings())
        if status != "ok":
            continue
        top, msgs = c07h.docutils_view(text)
        n += 1
        run.count("fixture:" + f)
        if msgs or any(t[0] == "stray" for t in top):
            run.violation({"file": f, "features": {"fixture": True}}, "no error-level message, directives only at top level",
                          {"messages": msgs, "top": [t[0] for t in top]}, "generated page of a repository sample is not well formed")
    run.notes["fixture_pages_parsed"] = n
    import rstwtrace
    rstwtrace.run(run, run.seed + 1, 40 if run.tier == "quick" else 600)
    run.assumptions += ["doc bodies are drawn from a menu of valid reST shapes; argument values contain no line breaks",
                        "docutils 0.23 with stub directives (module, function, data, py:class, py:method, py:attribute, toctree) "
                        "and a stub 'class' role stands for the Sphinx parser"]
    return ("TLC renders every page of the menu (9 entry kinds x 7 doc shapes, undocumented entries, sibling pairs, classes "
            "with bases/constructors/methods/attributes/inner classes) through the writer model, checks C07_TitleModuleEntries, "
            "C07_ContentInsideOwnDirective, C07_EntriesDisjoint on the serialisation; each page is produced for real from CMake "
            "source and (i) compared character for character with the specification's lines (drift), (ii) parsed by docutils: "
            "no error-level message, title then module then one directive per entry as siblings, doc text and class members "
            "nested in their own entry and in no other")


CHECKS = {p: agg_property for p in AGG}
CHECKS["C07"] = c07
CHECKS["C10"] = c10
CHECKS["C04"] = c04
CHECKS["C06"] = c06
CHECKS["C05"] = c05
CHECKS["C01"] = c01
CHECKS["C17"] = c17
CHECKS["C19"] = c19
CHECKS["C16"] = c16
CHECKS["C12"] = c12
for _p in ("C13", "C14", "C15", "C18"):
    CHECKS[_p] = walk_property
CHECKS["C20"] = c20


def replay_file(run, pid, path):
    """Show a recorded violation again and, where the case carries CMake source, re-run it through the real pipeline."""
    body = json.load(open(path))
    print("property:", body.get("property"), "| why:", body.get("why"))
    case = body.get("case", {})
    print("case:", json.dumps({k: v for k, v in case.items() if k != "source"}, indent=1, default=str)[:3000])
    print("expected:", json.dumps(body.get("expected"), indent=1, default=str)[:2000])
    print("observed (recorded):", json.dumps(body.get("observed"), indent=1, default=str)[:2000])
    src = case.get("source")
    if isinstance(src, str):
        import agg
        inc = case.get("inc") or {}
        status, text, _, err = agg.run_real(src, agg.make_settings(inc, None))
        print("---- source ----")
        print(src)
        print("---- real pipeline now: %s ----" % status)
        print(text)
    return 0
