------------------------------- MODULE MC_C16 -------------------------------
EXTENDS Config
O(name, kind, cli, def) == [name |-> name, kind |-> kind, cli |-> cli, def |-> def]
IncKinds == {"function", "macro", "cpp_class", "cpp_attr", "cpp_constructor", "cpp_member", "ct_add_test", "add_test", "ct_add_section", "option"}
MCOptions ==
  {O("input.include_undocumented_" \o k, "bool", FALSE, TRUE) : k \in IncKinds} \cup
  { O("input.auto_exclude_directories_without_cmake", "bool", FALSE, TRUE),
    O("input.kwargs_doc_trigger_string", "str", FALSE, TRUE),
    O("input.exclude_filters", "list", TRUE, FALSE),
    O("input.function_parameter_name_strip_regex", "str", FALSE, TRUE),
    O("input.macro_parameter_name_strip_regex", "str", FALSE, TRUE),
    O("input.member_parameter_name_strip_regex", "str", FALSE, TRUE),
    O("input.recursive", "bool", TRUE, TRUE),
    O("input.follow_symlinks", "bool", FALSE, TRUE),
    O("output.directory", "path", TRUE, FALSE),
    O("rst.file_extensions_in_titles", "bool", FALSE, TRUE),
    O("rst.file_extensions_in_modules", "bool", FALSE, TRUE),
    O("rst.module_path_separator", "str", FALSE, TRUE),
    O("rst.headers", "strseq", FALSE, TRUE),
    O("rst.prefix", "str", TRUE, FALSE) }
Singles == {{o.name} : o \in MCOptions}
Pairs == {{a, b} : a, b \in {"input.recursive", "rst.prefix", "input.exclude_filters", "output.directory",
                             "input.kwargs_doc_trigger_string", "input.include_undocumented_macro", "rst.headers"}}
NoDev == {}
CurrentDev == {}
=============================================================================
