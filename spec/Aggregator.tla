---------------------------- MODULE Aggregator ----------------------------
(***************************************************************************)
(* The listener state machine of DocumentationAggregator (Impl) run side   *)
(* by side with the requirement layer (Req) over nondeterministically      *)
(* generated well-formed programs.  One action per listener callback.      *)
(*                                                                         *)
(* CmdSeq   : the command alphabet of the configuration (records of        *)
(*            AggOps, without the d field)                                 *)
(* FlagSets : the include_undocumented_* assignments to explore            *)
(* prog is a history variable (hidden by VIEW); the behaviours are emitted *)
(* from the always-true invariant Emit for replay into the real code.      *)
(***************************************************************************)
EXTENDS AggOps, Json

CONSTANTS CmdSeq, FlagSets, MaxLen, MaxDepth, DocChoices,
          Prefix   \* commands (sequence of [ci, d]) every program starts with, e.g. an enclosing cpp_class

VARIABLES prog,   \* sequence of [ci: index into CmdSeq, d: BOOLEAN]
          pc,     \* "cmd": between commands; "inv": doccomment consumed, its invocation is next
          st,     \* Impl state
          rq,     \* Req state under the flags inc
          rqa,    \* Req state under all flags on (C08 compares the doccomment-stemming part with it)
          inc     \* the include_undocumented_* flags of this run
vars == <<prog, pc, st, rq, rqa, inc>>

ASSUME PrintT(<<"CMDS", ToJson(CmdSeq)>>)
Cmd(p) == [CmdSeq[p.ci] EXCEPT !.d = p.d]
Cur == Cmd(prog[Len(prog)])
N == Len(prog)

FoldImpl(f) == LET F[j \in 0..Len(Prefix)] == IF j = 0 THEN ImplInit ELSE ImplStep(F[j-1], Cmd(Prefix[j]), j, f) IN F[Len(Prefix)]
FoldReq(f) == LET F[j \in 0..Len(Prefix)] == IF j = 0 THEN ReqInit ELSE ReqStep(F[j-1], Cmd(Prefix[j]), j, f) IN F[Len(Prefix)]
Init == /\ prog = Prefix /\ pc = "cmd" /\ inc \in FlagSets
        /\ st = FoldImpl(inc) /\ rq = FoldReq(inc) /\ rqa = FoldReq(AllOn)
Base == Len(FoldReq(AllOn).ctx)

\* r is the Req state after the candidate command c: c must keep the program in the domain,
\* inside the nesting bound, with the prefix blocks open, and closable within MaxLen
WellFormed(c, r) ==
  /\ N < MaxLen
  /\ r.dom
  /\ Len(r.ctx) - Base <= MaxDepth
  /\ Len(r.ctx) >= Base
  /\ N + 1 + (Len(r.ctx) - Base) + (IF r.pend # 0 THEN 2 ELSE 0) <= MaxLen

\* enterDocumented_command: the doccomment of the next command is consumed and the command dispatched
EnterDocumentedCommand(ci) ==
  /\ pc = "cmd"
  /\ LET c == [CmdSeq[ci] EXCEPT !.d = TRUE] IN
     /\ WellFormed(c, ReqStep(rq, c, N + 1, inc))
     /\ prog' = Append(prog, [ci |-> ci, d |-> TRUE])
     /\ st' = ImplDoc(st, c, N + 1)
  /\ pc' = "inv"
  /\ UNCHANGED <<rq, rqa, inc>>

\* enterCommand_invocation of the command whose doccomment was just processed
EnterInvocationOfDocumented ==
  /\ pc = "inv"
  /\ st' = ImplCmd(st, Cur, N, inc)
  /\ rq' = ReqStep(rq, Cur, N, inc)
  /\ rqa' = ReqStep(rqa, Cur, N, AllOn)
  /\ pc' = "cmd"
  /\ UNCHANGED <<prog, inc>>

\* enterCommand_invocation of a command without a doccomment
EnterInvocationUndocumented(ci) ==
  /\ pc = "cmd"
  /\ LET c == [CmdSeq[ci] EXCEPT !.d = FALSE]
         r == ReqStep(rq, c, N + 1, inc) IN
     /\ WellFormed(c, r)
     /\ prog' = Append(prog, [ci |-> ci, d |-> FALSE])
     /\ st' = ImplCmd(st, c, N + 1, inc)
     /\ rq' = r
     /\ rqa' = ReqStep(rqa, c, N + 1, AllOn)
  /\ UNCHANGED <<pc, inc>>

DocumentedStep == \E ci \in 1..Len(CmdSeq) : TRUE \in DocChoices /\ EnterDocumentedCommand(ci)
UndocumentedStep == \E ci \in 1..Len(CmdSeq) : FALSE \in DocChoices /\ EnterInvocationUndocumented(ci)
Next == DocumentedStep \/ EnterInvocationOfDocumented \/ UndocumentedStep

Spec == Init /\ [][Next]_vars

\* ---------------------------------------------------------------- properties
AtBoundary == pc = "cmd"
Default == inc = AllOn
NoFailure == AtBoundary => st.exc = "" /\ st.errs = 0

C02_EntriesMatch == AtBoundary /\ Default /\ ~rq.dimpl => ProjC02(st.ent, st.top) = ProjC02(rq.ent, rq.top)
C03_Signatures   == AtBoundary /\ Default => ProjC03(st.ent, st.top) = ProjC03(rq.ent, rq.top)
C09_Classes      == AtBoundary /\ Default /\ ~rq.dimpl => ProjC09(st.ent, st.top) = ProjC09(rq.ent, rq.top)
C11_Tests        == AtBoundary /\ Default /\ ~rq.dimpl => ProjC11(st.ent, st.top) = ProjC11(rq.ent, rq.top)
\* the code's stacks are a refinement of the true nesting (the mechanism behind C03/C09)
StackRefinesInv  == AtBoundary /\ Default /\ ~rq.dimpl => StackRefines(st, rq)
\* C08: the doccomment-stemming part of the output does not depend on the flags ...
C08_DocStemming  == AtBoundary /\ ~rq.dimpl => ProjC08(st.ent, st.top) = ProjC08(rqa.ent, rqa.top)
\* ... and switching K off removes the undocumented K entries
KindFlag(k) == CASE k = "class" -> "cpp_class" [] k = "method" -> "cpp_member" [] k = "ctor" -> "cpp_constructor"
                 [] k = "attr" -> "cpp_attr" [] k = "test" -> "ct_add_test" [] k = "section" -> "ct_add_section"
                 [] k = "ctest" -> "add_test" [] OTHER -> k
C08_OffRemoves ==
  AtBoundary => \A j \in 1..Len(st.ent) :
     LET e == st.ent[j] IN e.k \notin {"none", "generic", "variable"} /\ ~e.d => inc[KindFlag(e.k)]

\* ---------------------------------------------------------------- behaviours for binding A
Terminal == AtBoundary /\ Len(rq.ctx) = Base /\ rq.pend = 0 /\ N > Len(Prefix)
Emit == Terminal => PrintT(<<"BEH", ToJson([prog |-> prog, inc |-> inc, dimpl |-> rq.dimpl,
                                            ideal |-> Dump(rq.ent, rq.top), impl |-> Dump(st.ent, st.top),
                                            idealOn |-> Dump(rqa.ent, rqa.top)])>>)
View == <<pc, st, rq, rqa, inc, N, IF pc = "inv" THEN prog[N] ELSE [ci |-> 0, d |-> FALSE]>>
=============================================================================
