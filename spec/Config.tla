------------------------------- MODULE Config -------------------------------
(***************************************************************************)
(* C16: settings layering in cminx.main().                                 *)
(*                                                                         *)
(* Impl follows the calls of main(): Configuration("cminx") reads the      *)
(* packaged defaults and the per-user file, set_file(-s) and set_args()    *)
(* each insert a source at the FRONT of confuse's source list, get() with  *)
(* the template validates types, all_contents() concatenates the exclude   *)
(* filters of all sources, the output directory is resolved.               *)
(* Req is the statement: command line > -s file > user file > defaults.    *)
(*                                                                         *)
(* asg[o][s] in {"unset", "ok", "bad"}: whether source s sets option o     *)
(* (bad = a value of the wrong type).  Only the options in Focus vary.     *)
(***************************************************************************)
EXTENDS Integers, Sequences, FiniteSets, TLC, Json

CONSTANTS Dev,
          Options,     \* set of records [name, kind: "bool"|"str"|"list"|"path"|"strseq", cli: settable from the command line, def: has a packaged default]
          FocusSets,   \* set of sets of option names varied together
          AllowBad     \* whether wrong-typed values are explored

Files == <<"sfile", "user">>
Priority == <<"cli", "sfile", "user", "defaults">>     \* the statement's order, highest first

VARIABLES asg,     \* [focus option name -> [source -> "unset"|"ok"|"bad"]]
          rtc,     \* which source (or "none") sets output.relative_to_config to true
          pc,      \* "defaults" "user" "sfile" "args" "validate" "resolve" "done"
          stack,   \* confuse's source list, highest priority first
          result   \* [status: "ok"|"rejected", eff: option -> source it is taken from ("none" if nowhere)]
vars == <<asg, rtc, pc, stack, result>>

Opt(n) == CHOOSE o \in Options : o.name = n
Sets(n, s) == IF s = "defaults" THEN Opt(n).def ELSE (n \in DOMAIN asg /\ asg[n][s] # "unset")
SrcChoices(n) == {"sfile", "user"} \cup (IF Opt(n).cli THEN {"cli"} ELSE {})

Init ==
  /\ \E F \in FocusSets :
        asg \in [F -> [{"cli", "sfile", "user"} -> {"unset", "ok", "bad"}]]
  /\ \A n \in DOMAIN asg : /\ (~Opt(n).cli => asg[n]["cli"] = "unset")
                          /\ asg[n]["cli"] # "bad"                       \* argparse delivers strings / True only
                          /\ (~AllowBad => \A s \in {"sfile", "user"} : asg[n][s] # "bad")
                          /\ Cardinality({s \in {"sfile", "user"} : asg[n][s] = "bad"}) <= 1
  /\ rtc \in (IF "output.directory" \in DOMAIN asg THEN {"none", "sfile", "user"} ELSE {"none"})
  /\ pc = "defaults" /\ stack = <<>> /\ result = [status |-> "", eff |-> <<>>]

Push(s) == stack' = <<s>> \o stack
\* Configuration("cminx", __name__): user file first in priority, then the packaged defaults
LoadDefaultsAndUser == /\ pc = "defaults" /\ stack' = <<"user", "defaults">> /\ pc' = "sfile" /\ UNCHANGED <<asg, rtc, result>>
\* settings.set_file(-s): inserted at the front
SetFile == /\ pc = "sfile" /\ Push("sfile") /\ pc' = "args" /\ UNCHANGED <<asg, rtc, result>>
\* settings.set_args(args): inserted at the front (after set_file, hence above it)
SetArgs == /\ pc = "args" /\ Push("cli") /\ pc' = "validate" /\ UNCHANGED <<asg, rtc, result>>

First(seq, P(_)) == LET S == {j \in 1..Len(seq) : P(seq[j])} IN IF S = {} THEN "none" ELSE seq[CHOOSE j \in S : \A k \in S : j <= k]
ImplSource(n) == First(stack, LAMBDA s : Sets(n, s))
IdealSource(n) == First(Priority, LAMBDA s : Sets(n, s))

\* settings.get(template): the value in effect is type-checked; confuse looks only at the first source that has the key
Validate ==
  /\ pc = "validate"
  /\ LET bad == {n \in DOMAIN asg : ImplSource(n) \in {"sfile", "user"} /\ asg[n][ImplSource(n)] = "bad"}
     IN result' = [status |-> IF bad # {} THEN "rejected" ELSE "ok",
                   eff |-> [n \in DOMAIN asg |-> ImplSource(n)]]
  /\ pc' = "done" /\ UNCHANGED <<asg, rtc, stack>>

Next == LoadDefaultsAndUser \/ SetFile \/ SetArgs \/ Validate
Spec == Init /\ [][Next]_vars

\* ---------------------------------------------------------------- Req
Done == pc = "done"
IdealRejected == \E n \in DOMAIN asg : IdealSource(n) \in {"sfile", "user"} /\ asg[n][IdealSource(n)] = "bad"
\* domain: wrong-typed values are judged only where they are in effect
InDomain == \A n \in DOMAIN asg : \A s \in {"sfile", "user"} : asg[n][s] = "bad" => s = IdealSource(n)
\* exclude patterns: the union of all sources (order: command line, -s file, user file)
IdealExcludeSources == SelectSeq(<<"cli", "sfile", "user">>, LAMBDA s : Sets("input.exclude_filters", s))
ImplExcludeSources == SelectSeq(stack, LAMBDA s : s # "defaults" /\ Sets("input.exclude_filters", s))
\* a relative output directory: against cwd, or against the directory of the file that sets it iff relative_to_config
\* (a value from the command line is set by no configuration file: the current directory, whatever relative_to_config says)
OutBase(src) == IF src = "none" THEN "none" ELSE IF rtc # "none" /\ src \in {"sfile", "user"} THEN "dir-of-" \o src ELSE "cwd"

C16_Precedence == Done /\ result.status = "ok" => \A n \in DOMAIN asg : result.eff[n] = IdealSource(n)
C16_WrongTypeRejected == Done => (result.status = "rejected") = IdealRejected
C16_ExcludesUnion == Done /\ "input.exclude_filters" \in DOMAIN asg => ImplExcludeSources = IdealExcludeSources
Emit == Done => PrintT(<<"BEH", ToJson([asg |-> asg, rtc |-> rtc, indom |-> InDomain, status |-> IF IdealRejected THEN "rejected" ELSE "ok",
                                        ideal |-> [n \in DOMAIN asg |-> IdealSource(n)], impl |-> result.eff,
                                        excl |-> IF "input.exclude_filters" \in DOMAIN asg THEN IdealExcludeSources ELSE <<>>,
                                        outbase |-> IF "output.directory" \in DOMAIN asg THEN OutBase(IdealSource("output.directory")) ELSE "none"])>>)
=============================================================================
