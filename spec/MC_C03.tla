------------------------------- MODULE MC_C03 -------------------------------
EXTENDS Aggregator, AggAlphabet
\* definitions with 0..2 parameters (some matched by the strip pattern, also the name),
\* cmake_parse_arguments, member / test declarations with their implementing definitions,
\* block and ordinary commands; every program sits inside a cpp_class (prefix)
Cmds == <<
  C("function", <<"@">>),
  C("function", <<"dup", "a">>), C("function", <<"dup", "b", "_p_a">>),     \* the same name defined twice, differently
  C("function", <<"_p_@", "_p_a", "a_s", "_p_", "b">>),     \* prefix, suffix, and a parameter the pattern matches entirely
  \* a quoted parameter with two blanks (shown as written; the pattern does not apply to it), a parameter that begins
  \* with '_' but has no second one (no strip pattern of the harness matches it), a bracket parameter
  C("function", <<"@", "\"_p_q  two\"", "_r", "_p_a", "[[x   y]]">>),
  Trig(C("macro", <<"@", "_p_a">>)),
  C("macro", <<"@">>),
  C("endfunction", <<>>), C("endmacro", <<>>),
  C("cmake_parse_arguments", <<"x", "\"\"", "\"\"", "\"\"">>),
  C("cpp_member", <<"@", "C", "int">>),
  C("ct_add_test", <<"NAME", "@">>),
  C("other", <<"hi">>),
  C("cpp_class", <<"C">>)
>>
Pre == <<[ci |-> CHOOSE j \in 1..Len(Cmds) : Cmds[j].k = "cpp_class", d |-> FALSE]>>
MCPats == [f |-> TRUE, m |-> TRUE, x |-> TRUE]
ASSUME PrintT(<<"PATS", ToJson(MCPats)>>)
NoDev == {}
CurrentDev == {}
Both == {TRUE, FALSE}
OnlyAllOn == {AllOn}
=============================================================================
