---------------------------- MODULE AggAlphabet ----------------------------
(***************************************************************************)
(* Command constructors for the model-checking configurations of           *)
(* Aggregator.tla.  "@" stands for the command's own unique name (the      *)
(* harness concretises it as n<source index>); arguments beginning with    *)
(* "_p_" are those the configured strip pattern ("^_p_") applies to -      *)
(* including the name "_p_@" of some definitions.                          *)
(***************************************************************************)
EXTENDS Naturals, Sequences, TLC

UpTbl == [name |-> "NAME", Name |-> "NAME", expectfail |-> "EXPECTFAIL", ExpectFail |-> "EXPECTFAIL"]
Up(s) == IF s \in DOMAIN UpTbl THEN UpTbl[s] ELSE s
\* (the pattern the harness configures is "^_p_|_s$": a prefix or a suffix; "_p_" alone is matched entirely)
StripTbl == ("_p_@" :> "@") @@ ("_p_a" :> "a") @@ ("_p_b" :> "b") @@ ("_p_self" :> "self") @@ ("a_s" :> "a") @@ ("_p_" :> "")
StripP(s) == IF s \in DOMAIN StripTbl THEN StripTbl[s] ELSE s
Map(f(_), s) == [j \in 1..Len(s) |-> f(s[j])]

\* Pats.f / .m / .x: is the function / macro / member strip pattern "^_p_" configured (else "")
CONSTANT Pats
C(k, a) ==
  [k |-> k, nm |-> k, d |-> FALSE, a |-> a, up |-> Map(Up, a),
   s |-> IF (k = "function" /\ Pats.f) \/ (k = "macro" /\ Pats.m) THEN Map(StripP, a) ELSE a,
   x |-> IF Pats.x THEN Map(StripP, a) ELSE a,
   trig |-> FALSE, cpds |-> <<>>, ord |-> a]
Plain(k, a) == C(k, a)
Trig(c) == [c EXCEPT !.trig = TRUE]
\* a generic command with compound arguments: ord is the source order, a the single ones
Compound(k, a, cpds, ord) == [Plain(k, a) EXCEPT !.cpds = cpds, !.ord = ord]
=============================================================================
