------------------------------ MODULE AggOps ------------------------------
(***************************************************************************)
(* Pure operators of the aggregator model (no variables), shared by the    *)
(* model-checking module Aggregator.tla (binding A) and the trace          *)
(* validation module TraceAggregator.tla (binding B).                      *)
(*                                                                         *)
(* Impl*  : src/cminx/aggregator.py as it is written - one operator per    *)
(*          listener callback / process_<command> method.                  *)
(* Req*   : what properties C02 C03 C08 C09 C11 demand, written from the   *)
(*          property text (true block nesting, ideal entries).             *)
(*                                                                         *)
(* A command is a record                                                   *)
(*   [k |-> command name class, nm |-> lower-cased name, d |-> doccomment?, *)
(*    a |-> single arguments as written, up |-> the same upper-cased,      *)
(*    s |-> a with the kind's own strip pattern applied to every element,  *)
(*    x |-> a with the member strip pattern applied, trig |-> the doc      *)
(*    contains the kwargs trigger string, cpds |-> texts of the compound   *)
(*    (parenthesised) arguments, ord |-> all arguments in source order]    *)
(* str.upper and re.sub are library functions: their results are inputs.   *)
(***************************************************************************)
EXTENDS Naturals, Sequences, FiniteSets, TLC

CONSTANT Dev        \* set of named deviations of the code from Req that Impl reproduces

Top(s) == s[Len(s)]
Pop(s) == SubSeq(s, 1, Len(s) - 1)
DropFirst(s, n) == IF Len(s) <= n THEN <<>> ELSE SubSeq(s, n + 1, Len(s))
SelectIdx(s, P(_)) == LET F[i \in 0..Len(s)] == IF i = 0 THEN <<>> ELSE IF P(i) THEN Append(F[i-1], s[i]) ELSE F[i-1] IN F[Len(s)]

\* names with a process_<name> attribute on DocumentationAggregator
Processors == {"function", "macro", "cmake_parse_arguments", "ct_add_test", "ct_add_section", "set",
               "cpp_class", "cpp_member", "cpp_constructor", "cpp_attr", "add_test", "option", "generic_command"}
\* kinds that have an include_undocumented_<k> flag
FlagKinds == {"function", "macro", "cpp_class", "cpp_attr", "cpp_constructor", "cpp_member",
              "ct_add_test", "add_test", "ct_add_section", "option"}
AllOn == [f \in FlagKinds |-> TRUE]
DefKinds == {"function", "macro"}
EndKinds == {"endfunction", "endmacro"}
DeclKinds == {"cpp_member", "cpp_constructor", "ct_add_test", "ct_add_section"}

NoEnt == [k |-> "none"]
Entry(k, i, c) ==
  [k |-> k, src |-> i, d |-> c.d, name |-> "", params |-> <<>>, kw |-> FALSE, ismacro |-> FALSE,
   vals |-> <<>>, expfail |-> FALSE, ptypes |-> <<>>, pclass |-> "", hasdef |-> FALSE,
   ctors |-> <<>>, members |-> <<>>, attrs |-> <<>>, inner |-> <<>>]

\* ---------------------------------------------------------------- Impl
\* st == [ent: Seq(entry or NoEnt) indexed by source index, top: Seq(src) = `documented`,
\*        cls: documented_classes_stack (src, 0 for None), defs: definition_command_stack
\*        ([e: src or 0, sd: should_document]), aw: documented_awaiting_function_def (src or 0),
\*        errs: number of logger.error calls, exc: "" or name of the raised exception]
ImplInit == [ent |-> <<>>, top |-> <<>>, cls |-> <<>>, defs |-> <<>>, aw |-> 0, errs |-> 0, exc |-> ""]

Ext(st, i) == IF Len(st.ent) < i THEN [st EXCEPT !.ent = Append(@, NoEnt)] ELSE st
Err(st) == [st EXCEPT !.errs = @ + 1]
\* both callbacks wrap their body in try/except: logger.error, then re-raise
Raise(st, what) == [st EXCEPT !.exc = what, !.errs = @ + 1]
AddTop(st, i, e) == [st EXCEPT !.ent[i] = e, !.top = Append(@, i)]

\* the NAME scan shared by ct_add_test / ct_add_section / add_test: last NAME wins,
\* NAME as the last argument is an error.  Returns [ok, name, expfail]
NameScan(c) ==
  LET F[j \in 0..Len(c.a)] ==
        IF j = 0 THEN [ok |-> TRUE, name |-> "", ef |-> FALSE]
        ELSE LET r == F[j-1]
                 r1 == IF c.up[j] = "NAME"
                       THEN IF j + 1 <= Len(c.a) THEN [r EXCEPT !.name = c.a[j+1]] ELSE [r EXCEPT !.ok = FALSE]
                       ELSE r
             IN IF ~r.ok THEN r     \* the code returns at the first failing NAME
                ELSE IF c.up[j] = "EXPECTFAIL" /\ r1.ok THEN [r1 EXCEPT !.ef = TRUE] ELSE r1
  IN F[Len(c.a)]

ProcFunction(st, c, i) ==   \* process_function / process_macro
  IF Len(c.a) < 1 THEN Raise(st, "CMakeSyntaxException")
  ELSE LET e == [Entry(c.k, i, c) EXCEPT !.name = c.a[1], !.params = Tail(c.s), !.kw = c.trig]
       IN [AddTop(st, i, e) EXCEPT !.defs = Append(@, [e |-> i, sd |-> TRUE])]

ProcCpa(st) ==   \* process_cmake_parse_arguments
  IF Len(st.defs) > 0 /\ Top(st.defs).sd /\ Top(st.defs).e # 0
  THEN [st EXCEPT !.ent[Top(st.defs).e].kw = TRUE] ELSE st

ProcTest(st, c, i) ==   \* process_ct_add_test / process_ct_add_section
  IF Len(c.a) < 2 THEN Err(st)
  ELSE LET r == NameScan(c) IN
       IF ~r.ok THEN Err(st)
       ELSE LET k == IF c.k = "ct_add_test" THEN "test" ELSE "section"
                e == [Entry(k, i, c) EXCEPT !.name = r.name, !.expfail = r.ef]
            IN [AddTop(st, i, e) EXCEPT !.aw = i]

ProcSet(st, c, i) ==
  IF Len(c.a) < 1 THEN Err(st)
  ELSE AddTop(st, i, [Entry("variable", i, c) EXCEPT !.name = c.a[1], !.vals = Tail(c.a)])

ProcClass(st, c, i) ==
  IF Len(c.a) < 1 THEN Err(st)
  ELSE LET e == [Entry("class", i, c) EXCEPT !.name = c.a[1], !.params = Tail(c.a)]
           s1 == AddTop(st, i, e)
           s2 == IF Len(st.cls) > 0 /\ Top(st.cls) # 0
                 THEN [s1 EXCEPT !.ent[Top(st.cls)].inner = Append(@, i)] ELSE s1
       IN [s2 EXCEPT !.cls = Append(@, i)]

ProcMember(st, c, i, isCtor) ==
  IF Len(c.a) < 2 THEN Err(st)
  ELSE IF Len(st.cls) = 0 THEN Err(st)
  ELSE IF Top(st.cls) = 0 THEN st
  ELSE LET e == [Entry(IF isCtor THEN "ctor" ELSE "method", i, c)
                   EXCEPT !.name = c.a[1], !.pclass = c.a[2], !.ptypes = DropFirst(c.a, 2)]
           s1 == [st EXCEPT !.ent[i] = e, !.aw = i]
       IN IF isCtor THEN [s1 EXCEPT !.ent[Top(st.cls)].ctors = Append(@, i)]
                    ELSE [s1 EXCEPT !.ent[Top(st.cls)].members = Append(@, i)]

ProcAttr(st, c, i) ==
  IF Len(c.a) < 2 THEN Err(st)
  ELSE IF Len(st.cls) = 0 THEN Err(st)
  ELSE IF Top(st.cls) = 0 THEN st
  ELSE LET e == [Entry("attr", i, c) EXCEPT !.pclass = c.a[1], !.name = c.a[2],
                                            !.hasdef = Len(c.a) > 2, !.vals = IF Len(c.a) > 2 THEN <<c.a[3]>> ELSE <<>>]
       IN [st EXCEPT !.ent[i] = e, !.ent[Top(st.cls)].attrs = Append(@, i)]

ProcAddTest(st, c, i) ==
  IF Len(c.a) < 2 THEN Err(st)
  ELSE LET r == NameScan(c) IN
       IF ~r.ok THEN Err(st)
       ELSE LET byValue == SelectIdx(c.a, LAMBDA j : c.a[j] # r.name /\ c.a[j] # "NAME")
                \* position-based: drop the (last) NAME keyword and the argument after it
                kwPos == CHOOSE j \in 0..Len(c.a) : /\ (j > 0 => c.up[j] = "NAME")
                                                    /\ \A j2 \in (j+1)..Len(c.a) : c.up[j2] # "NAME"
                byPos == SelectIdx(c.a, LAMBDA j : kwPos = 0 \/ (j # kwPos /\ j # kwPos + 1))
                e == [Entry("ctest", i, c) EXCEPT !.name = r.name,
                        !.params = IF "D_AddTestFilterByValue" \in Dev THEN byValue ELSE byPos]
            IN AddTop(st, i, e)

ProcOption(st, c, i) ==
  IF Len(c.a) < 2 \/ Len(c.a) > 3 THEN Err(st)
  ELSE AddTop(st, i, [Entry("option", i, c) EXCEPT !.name = c.a[1], !.vals = <<c.a[2]>>,
                         !.hasdef = Len(c.a) = 3, !.params = IF Len(c.a) = 3 THEN <<c.a[3]>> ELSE <<>>])

ProcGeneric(st, c, i) ==
  \* single arguments first, then compound ones (D_GenericArgsRegrouped); in source order otherwise
  AddTop(st, i, [Entry("generic", i, c) EXCEPT !.name = c.nm,
                    !.params = IF "D_GenericArgsRegrouped" \in Dev THEN c.a \o c.cpds ELSE c.ord])

Process(st, c, i) ==
  CASE c.k \in DefKinds -> ProcFunction(st, c, i)
    [] c.k = "cmake_parse_arguments" -> ProcCpa(st)
    [] c.k \in {"ct_add_test", "ct_add_section"} -> ProcTest(st, c, i)
    [] c.k = "set" -> ProcSet(st, c, i)
    [] c.k = "cpp_class" -> ProcClass(st, c, i)
    [] c.k = "cpp_member" -> ProcMember(st, c, i, FALSE)
    [] c.k = "cpp_constructor" -> ProcMember(st, c, i, TRUE)
    [] c.k = "cpp_attr" -> ProcAttr(st, c, i)
    [] c.k = "add_test" -> ProcAddTest(st, c, i)
    [] c.k = "option" -> ProcOption(st, c, i)

\* enterDocumented_command: dispatch by attribute existence
ImplDoc(st0, c, i) ==
  LET st == Ext(st0, i) IN
  IF st.exc # "" THEN st
  ELSE IF c.k = "generic_command"
       THEN IF "D_GenericCommandName" \in Dev THEN Raise(st, "TypeError") ELSE ProcGeneric(st, c, i)
  ELSE IF c.k \in Processors THEN Process(st, c, i)
  ELSE ProcGeneric(st, c, i)

\* enterCommand_invocation, in the code's if/elif order.  inc = the include_undocumented_* flags
ImplCmd(st0, c, i, inc) ==
  LET st == Ext(st0, i) IN
  IF st.exc # "" THEN st
  ELSE IF c.k = "cpp_class" /\ ~inc["cpp_class"] /\ (c.d => "D_ClassOffPushesNone" \in Dev)
       THEN [st EXCEPT !.cls = Append(@, 0)]
  ELSE IF c.k = "cpp_class" /\ ~inc["cpp_class"] THEN st     \* repaired: documented class already pushed
  ELSE IF c.k = "cpp_end_class"
       THEN IF Len(st.cls) = 0 THEN Raise(st, "IndexError") ELSE [st EXCEPT !.cls = Pop(@)]
  ELSE IF c.k = "cmake_parse_arguments" THEN ProcCpa(st)
  ELSE IF c.k \in DefKinds /\ st.aw # 0
       THEN \* the definition the pending declaration was waiting for
            LET isM == st.ent[st.aw].k \in {"method", "ctor"}
                ps == IF isM THEN c.x ELSE c.a
                s1 == [st EXCEPT !.ent[st.aw].ismacro = (c.k = "macro"),
                                 !.ent[st.aw].params = @ \o DropFirst(ps, 2), !.aw = 0]
            IN \* a documented definition was already pushed by process_function: pushing again
               \* unbalances the stack (D_DoublePushOnDocumentedImpl)
               IF c.d /\ "D_DoublePushOnDocumentedImpl" \notin Dev THEN s1
               ELSE [s1 EXCEPT !.defs = Append(@, [e |-> 0, sd |-> FALSE])]
  ELSE IF c.k \in EndKinds
       THEN IF Len(st.defs) = 0 THEN Raise(st, "IndexError") ELSE [st EXCEPT !.defs = Pop(@)]
  ELSE IF c.k # "set" /\ c.k \in Processors /\ ~c.d
       THEN IF c.k = "generic_command"
            THEN IF "D_GenericCommandName" \in Dev THEN Raise(st, "KeyError") ELSE st
            ELSE IF inc[c.k] THEN Process(st, [c EXCEPT !.trig = FALSE], i)
            ELSE IF c.k \in DefKinds THEN [st EXCEPT !.defs = Append(@, [e |-> 0, sd |-> FALSE])]
            ELSE st
  ELSE st

ImplStep(st, c, i, inc) == ImplCmd(IF c.d THEN ImplDoc(st, c, i) ELSE st, c, i, inc)

\* ---------------------------------------------------------------- Req
\* rq == [ent, top: ideal entries (same shape as Impl's), ctx: true block nesting
\*        Seq([k: "function"|"macro"|"class", e: src of the entry or 0]), pend: src of the
\*        declaration whose implementing definition must come next (0 = none), dom: in-domain so far,
\*        dimpl: some implementing definition carried a doccomment (C02/C08/C09 do not judge such programs)]
ReqInit == [ent |-> <<>>, top |-> <<>>, ctx |-> <<>>, pend |-> 0, dom |-> TRUE, dimpl |-> FALSE]

InnermostOf(ctx, K) ==   \* index in ctx of the innermost element whose kind is in K, 0 if none
  LET S == {j \in 1..Len(ctx) : ctx[j].k \in K} IN IF S = {} THEN 0 ELSE CHOOSE j \in S : \A j2 \in S : j2 <= j

\* is command c shown under flags inc?  (doccomment => always; otherwise the kind's flag)
Shown(c, inc) == c.d \/ (c.k \in FlagKinds /\ inc[c.k])

\* first NAME keyword by position (upper case, as CMake requires)
NamePos(c) == LET S == {j \in 1..Len(c.a) : c.a[j] = "NAME"} IN IF S = {} THEN 0 ELSE CHOOSE j \in S : \A j2 \in S : j <= j2

\* domain of the properties (C02 carve-outs): argument lists well formed for the kind
ArgsOk(c) ==
  CASE c.k \in DefKinds -> Len(c.a) >= 1
    [] c.k \in {"ct_add_test", "ct_add_section", "add_test"} ->
         \* CMake's short form add_test(<name> <command> [<arg>...]) has no NAME keyword: it is a documentable command
         \* of C02 (one entry, kind CTest test); how it is named is outside C11's quantifier and not judged
         \/ (c.k = "add_test" /\ Len(c.a) >= 2 /\ \A j \in 1..Len(c.a) : c.up[j] # "NAME")
         \/ /\ Cardinality({j \in 1..Len(c.a) : c.up[j] = "NAME"}) = 1
            /\ NamePos(c) # 0 /\ NamePos(c) < Len(c.a)
            /\ c.a[NamePos(c) + 1] \notin {"NAME", "EXPECTFAIL"}
            /\ \A j \in 1..Len(c.a) : c.up[j] = "EXPECTFAIL" => c.a[j] = "EXPECTFAIL"
    [] c.k = "set" -> Len(c.a) >= 1
    [] c.k = "cpp_class" -> Len(c.a) >= 1
    [] c.k \in {"cpp_member", "cpp_constructor", "cpp_attr"} -> Len(c.a) >= 2
    [] c.k = "option" -> Len(c.a) \in {2, 3}
    [] OTHER -> TRUE

ReqStep(rq0, c, i, inc) ==
  LET rq == [rq0 EXCEPT !.ent = IF Len(@) < i THEN Append(@, NoEnt) ELSE @]
      ctx == rq.ctx
      ci == InnermostOf(ctx, {"class"})
      cls == IF ci = 0 THEN 0 ELSE ctx[ci].e
      okDom == /\ rq.dom /\ ArgsOk(c)
               /\ (rq.pend # 0 => c.k \in DefKinds)                   \* declaration directly followed by its definition
               /\ (c.k \in EndKinds \cup {"cpp_end_class", "cmake_parse_arguments"} => ~c.d)
               /\ (c.k = "endfunction" => Len(ctx) > 0 /\ Top(ctx).k = "function")
               /\ (c.k = "endmacro" => Len(ctx) > 0 /\ Top(ctx).k = "macro")
               /\ (c.k = "cpp_end_class" => Len(ctx) > 0 /\ Top(ctx).k = "class")
               /\ (c.k \in {"cpp_member", "cpp_constructor", "cpp_attr"} => ci # 0)
      r == [rq EXCEPT !.dom = okDom]
  IN
  IF ~okDom THEN r
  ELSE CASE c.k \in DefKinds ->
         IF rq.pend # 0
         THEN \* implementing definition of the immediately preceding declaration: no entry of its own
              \* (unless it carries a doccomment itself: then it is a documented definition too)
              LET p == rq.pend
                  isM == rq.ent[p].k \in {"method", "ctor"}
                  r1 == IF rq.ent[p].k = "none" THEN r
                        ELSE [r EXCEPT !.ent[p].ismacro = (c.k = "macro"),
                                       !.ent[p].params = IF isM THEN DropFirst(c.x, 2) ELSE DropFirst(c.a, 2)]
              IN IF c.d
                 THEN LET e == [Entry(c.k, i, c) EXCEPT !.name = c.a[1], !.params = Tail(c.s), !.kw = c.trig]
                      IN [r1 EXCEPT !.pend = 0, !.dimpl = TRUE, !.ent[i] = e, !.top = Append(@, i),
                                    !.ctx = Append(@, [k |-> c.k, e |-> i])]
                 ELSE [r1 EXCEPT !.pend = 0, !.ctx = Append(@, [k |-> c.k, e |-> 0])]
         ELSE IF Shown(c, inc)
              THEN LET e == [Entry(c.k, i, c) EXCEPT !.name = c.a[1], !.params = Tail(c.s), !.kw = c.d /\ c.trig]
                   IN [r EXCEPT !.ent[i] = e, !.top = Append(@, i), !.ctx = Append(@, [k |-> c.k, e |-> i])]
              ELSE [r EXCEPT !.ctx = Append(@, [k |-> c.k, e |-> 0])]
    [] c.k \in EndKinds \cup {"cpp_end_class"} -> [r EXCEPT !.ctx = Pop(@)]
    [] c.k = "cmake_parse_arguments" ->
         LET di == InnermostOf(ctx, DefKinds) IN
         IF di # 0 /\ ctx[di].e # 0 THEN [r EXCEPT !.ent[ctx[di].e].kw = TRUE] ELSE r
    [] c.k = "cpp_class" ->
         IF Shown(c, inc)
         THEN LET e == [Entry("class", i, c) EXCEPT !.name = c.a[1], !.params = Tail(c.a)]
                  r1 == [r EXCEPT !.ent[i] = e, !.top = Append(@, i), !.ctx = Append(@, [k |-> "class", e |-> i])]
              IN IF cls # 0 THEN [r1 EXCEPT !.ent[cls].inner = Append(@, i)] ELSE r1
         ELSE [r EXCEPT !.ctx = Append(@, [k |-> "class", e |-> 0])]
    [] c.k \in {"cpp_member", "cpp_constructor"} ->
         IF cls # 0 /\ Shown(c, inc)
         THEN LET isCtor == c.k = "cpp_constructor"
                  e == [Entry(IF isCtor THEN "ctor" ELSE "method", i, c)
                          EXCEPT !.name = c.a[1], !.pclass = c.a[2], !.ptypes = DropFirst(c.a, 2)]
                  r1 == [r EXCEPT !.ent[i] = e, !.pend = i]
              IN IF isCtor THEN [r1 EXCEPT !.ent[cls].ctors = Append(@, i)]
                           ELSE [r1 EXCEPT !.ent[cls].members = Append(@, i)]
         ELSE [r EXCEPT !.pend = i]
    [] c.k = "cpp_attr" ->
         IF cls # 0 /\ Shown(c, inc)
         THEN LET e == [Entry("attr", i, c) EXCEPT !.pclass = c.a[1], !.name = c.a[2],
                          !.hasdef = Len(c.a) > 2, !.vals = IF Len(c.a) > 2 THEN <<c.a[3]>> ELSE <<>>]
              IN [r EXCEPT !.ent[i] = e, !.ent[cls].attrs = Append(@, i)]
         ELSE r
    [] c.k \in {"ct_add_test", "ct_add_section"} ->
         IF Shown(c, inc)
         THEN LET e == [Entry(IF c.k = "ct_add_test" THEN "test" ELSE "section", i, c)
                          EXCEPT !.name = c.a[NamePos(c) + 1],
                                 !.expfail = \E j \in 1..Len(c.a) : c.a[j] = "EXPECTFAIL"]
              IN [r EXCEPT !.ent[i] = e, !.top = Append(@, i), !.pend = i]
         ELSE [r EXCEPT !.pend = i]
    [] c.k = "add_test" ->
         IF Shown(c, inc)
         THEN LET np == NamePos(c)
                  \* short form (np = 0): the entry exists and shows every argument; its name is not judged ("")
                  e == [Entry("ctest", i, c) EXCEPT !.name = IF np = 0 THEN "" ELSE c.a[np + 1],
                          !.params = SelectIdx(c.a, LAMBDA j : np = 0 \/ (j # np /\ j # np + 1))]
              IN [r EXCEPT !.ent[i] = e, !.top = Append(@, i)]
         ELSE r
    [] c.k = "option" ->
         IF Shown(c, inc)
         THEN [r EXCEPT !.ent[i] = [Entry("option", i, c) EXCEPT !.name = c.a[1], !.vals = <<c.a[2]>>,
                                      !.hasdef = Len(c.a) = 3, !.params = IF Len(c.a) = 3 THEN <<c.a[3]>> ELSE <<>>],
                        !.top = Append(@, i)]
         ELSE r
    [] c.k = "set" ->
         IF c.d THEN [r EXCEPT !.ent[i] = [Entry("variable", i, c) EXCEPT !.name = c.a[1], !.vals = Tail(c.a)],
                               !.top = Append(@, i)]
         ELSE r
    [] OTHER ->   \* any other command: an entry iff it carries a doccomment, arguments as written and in order
         IF c.d THEN [r EXCEPT !.ent[i] = [Entry("generic", i, c) EXCEPT !.name = c.nm, !.params = c.ord],
                               !.top = Append(@, i)]
         ELSE r

\* ---------------------------------------------------------------- projections (what the properties compare)
\* C02: kind, source, name per top-level entry, in order (+ arguments for generic invocations);
\*      per class the (kind, src) lists of its members
Members(ent, e) == [ctors |-> e.ctors, members |-> e.members, attrs |-> e.attrs]
ProjC02(ent, top) ==
  [j \in 1..Len(top) |->
     LET e == ent[top[j]] IN
     [k |-> e.k, src |-> e.src, name |-> e.name,
      params |-> IF e.k = "generic" THEN e.params ELSE <<>>,
      mem |-> IF e.k = "class" THEN Members(ent, e) ELSE <<>>]]

\* C03: signature of every function/macro entry
ProjC03(ent, top) ==
  LET defs == SelectIdx(top, LAMBDA j : ent[top[j]].k \in DefKinds) IN
  [j \in 1..Len(defs) |-> LET e == ent[defs[j]] IN [src |-> e.src, name |-> e.name, params |-> e.params, kw |-> e.kw]]

\* C09: class structure and method signatures
MethodSig(e) == [src |-> e.src, name |-> e.name, params |-> e.params, ptypes |-> e.ptypes, ismacro |-> e.ismacro]
AttrSig(e) == [src |-> e.src, name |-> e.name, hasdef |-> e.hasdef, vals |-> e.vals]
ProjC09(ent, top) ==
  LET cl == SelectIdx(top, LAMBDA j : ent[top[j]].k = "class") IN
  [j \in 1..Len(cl) |->
     LET e == ent[cl[j]] IN
     [src |-> e.src, name |-> e.name, bases |-> e.params,
      ctors |-> [m \in 1..Len(e.ctors) |-> MethodSig(ent[e.ctors[m]])],
      members |-> [m \in 1..Len(e.members) |-> MethodSig(ent[e.members[m]])],
      attrs |-> [m \in 1..Len(e.attrs) |-> AttrSig(ent[e.attrs[m]])],
      inner |-> e.inner]]

\* C11: test, section and CTest entries
ProjC11(ent, top) ==
  LET ts == SelectIdx(top, LAMBDA j : ent[top[j]].k \in {"test", "section", "ctest"}) IN
  [j \in 1..Len(ts) |-> LET e == ent[ts[j]] IN
     [k |-> e.k, src |-> e.src, name |-> e.name, expfail |-> e.expfail, params |-> e.params]]

\* C08: the doccomment-stemming part of the output: entries of documented commands, and inside
\* (documented) classes only the documented members
DocOnly(ent, s) == SelectIdx(s, LAMBDA j : ent[s[j]].d)
ProjC08(ent, top) ==
  LET dt == DocOnly(ent, top) IN
  [j \in 1..Len(dt) |->
     LET e == ent[dt[j]] IN
     [k |-> e.k, src |-> e.src, name |-> e.name, params |-> e.params, kw |-> e.kw, vals |-> e.vals,
      expfail |-> e.expfail, hasdef |-> e.hasdef,
      ctors |-> LET l == DocOnly(ent, e.ctors) IN [m \in 1..Len(l) |-> MethodSig(ent[l[m]])],
      members |-> LET l == DocOnly(ent, e.members) IN [m \in 1..Len(l) |-> MethodSig(ent[l[m]])],
      attrs |-> LET l == DocOnly(ent, e.attrs) IN [m \in 1..Len(l) |-> AttrSig(ent[l[m]])],
      inner |-> DocOnly(ent, e.inner)]]

\* full dump for the harness (binding A): top-level entries with members inlined
Dump(ent, top) ==
  [j \in 1..Len(top) |->
     LET e == ent[top[j]] IN
     [e EXCEPT !.ctors = [m \in 1..Len(e.ctors) |-> ent[e.ctors[m]]],
               !.members = [m \in 1..Len(e.members) |-> ent[e.members[m]]],
               !.attrs = [m \in 1..Len(e.attrs) |-> ent[e.attrs[m]]]]]

\* refinement mapping between the code's stacks and the true nesting
DefsOfCtx(ctx) == LET d == SelectIdx(ctx, LAMBDA j : ctx[j].k \in DefKinds) IN [j \in 1..Len(d) |-> d[j].e]
ClsOfCtx(ctx) == LET d == SelectIdx(ctx, LAMBDA j : ctx[j].k = "class") IN [j \in 1..Len(d) |-> d[j].e]
StackRefines(st, rq) ==
  /\ [j \in 1..Len(st.defs) |-> st.defs[j].e] = DefsOfCtx(rq.ctx)
  /\ st.cls = ClsOfCtx(rq.ctx)
  /\ st.aw = (IF rq.pend # 0 /\ rq.ent[rq.pend].k # "none" THEN rq.pend ELSE 0)
=============================================================================
