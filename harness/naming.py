"""C12: Naming.tla behaviours replayed through the real command line (cminx.main) in a sandbox."""
import contextlib
import io
import json
import os
import random
import subprocess
import tempfile
from concurrent.futures import ProcessPoolExecutor

import lib
from rstparse import Page

SUBST = {"PFX": "pfx", "DIRNAME": "proj", "MODNAME": "my/mod-ule.x\u5de5\u5177e\u0301", "MODBODY": "module body text", "CMDDOC": "command doc text"}
ALL_FILES = [["x.cmake"], ["a", "x.cmake"], ["a", "b", "Y.CMAKE"], ["a", "b", "z.cmake"], ["a", "d.e-f.cmake"], ["x.cmake.cmake"]]
LINKS = {("a", "lnk.cmake"): "../x.cmake"}


def file_text(run):
    md = run["moddoc"]
    out = []
    if md["kind"] != "absent":
        out.append("#[[[ @module" + (" " + SUBST["MODNAME"] if md["kind"] == "named" else ""))
        if md["body"]:
            out.append("# :Author: the module's author")      # a field list first: still content of the directive
            out.append("# " + SUBST["MODBODY"])
        out.append("#]]")
    if run["nextdoc"]:
        out += ["#[[[", "# " + SUBST["CMDDOC"], "#]]"]
    if md["kind"] == "absent" and not run["nextdoc"] and run["ext_titles"] and not run["ext_modules"]:
        # a module without anything to document: still a title and one module directive
        out += ["include_guard()", "message(nothing here)"]
    else:
        out += ["function(foo a)", "endfunction()"]
    return "\n".join(out) + "\n"


def toks(ts, sandbox):
    return "".join(SUBST.get(t, t).replace("ABSDIR/", os.path.join(sandbox, "proj") + "/") for t in ts)


def run_main(argv, cwd, home):
    """cminx.main in-process with cwd/HOME redirected; returns (exception text or None, stdout)."""
    import cminx
    import logging
    old = os.getcwd()
    env = {k: os.environ.get(k) for k in ("HOME", "XDG_CONFIG_HOME", "CMINXDIR")}
    os.environ["HOME"] = home
    os.environ["XDG_CONFIG_HOME"] = os.path.join(home, ".config")
    os.environ.pop("CMINXDIR", None)
    out = io.StringIO()
    exc = None
    logging.disable(logging.NOTSET)
    try:
        os.chdir(cwd)
        with contextlib.redirect_stdout(out), contextlib.redirect_stderr(io.StringIO()):
            cminx.main(argv)
    except BaseException as e:
        exc = "%s: %s" % (type(e).__name__, str(e)[:200])
    finally:
        os.chdir(old)
        for k, v in env.items():
            if v is None:
                os.environ.pop(k, None)
            else:
                os.environ[k] = v
        logging.disable(logging.NOTSET)
        for h in list(logging.getLogger().handlers):
            logging.getLogger().removeHandler(h)
    return exc, out.getvalue()


def replay_one(beh, sandbox):
    run = beh["run"]
    proj = os.path.join(sandbox, "proj")
    text = file_text(run)
    if (len(run["headers"]) + len(run["sep"]) + (1 if run["nextdoc"] else 0)) % 2 == 0:
        text = text.replace("\n", "\r\n")          # the same module with CRLF line endings: names and titles are the same
    for rel in ALL_FILES:
        os.makedirs(os.path.join(proj, *rel[:-1]), exist_ok=True)
        with open(os.path.join(proj, *rel), "w", encoding="utf-8", newline="") as fh:
            fh.write(text)
    for rel, target in LINKS.items():
        if not os.path.lexists(os.path.join(proj, *rel)):
            os.symlink(target, os.path.join(proj, *rel))
    home = os.path.join(sandbox, "home")
    os.makedirs(home, exist_ok=True)
    outdir = os.path.join(sandbox, "out")
    import yaml
    cfg = {"rst": {"module_path_separator": run["sep"], "file_extensions_in_titles": run["ext_titles"],
                   "file_extensions_in_modules": run["ext_modules"], "headers": run["headers"]},
           "logging": {"version": 1}}
    if run["prefixsrc"] == "config":
        cfg["rst"]["prefix"] = SUBST["PFX"]
    sfile = os.path.join(sandbox, "settings.yaml")
    with open(sfile, "w") as fh:
        yaml.safe_dump(cfg, fh)
    argv = ["-s", sfile, "-o", outdir]
    if run["prefixsrc"] == "cli":
        argv += ["-p", SUBST["PFX"]]
    rel = run["file"]["rel"]
    cwd = sandbox
    # another input earlier on the same command line (its pages land in the same output directory)
    before = run.get("before", "none")
    first = None
    if before == "dir":
        os.makedirs(os.path.join(sandbox, "other"), exist_ok=True)
        with open(os.path.join(sandbox, "other", "o1.cmake"), "w") as fh:
            fh.write("function(o1)\nendfunction()\n")
        first = os.path.join(sandbox, "other")
    elif before == "file":
        with open(os.path.join(sandbox, "lone0.cmake"), "w") as fh:
            fh.write("function(lone0)\nendfunction()\n")
        first = os.path.join(sandbox, "lone0.cmake")
    if first is not None:
        first = first if (run["mode"] != "single" and run["spelling"] in ("abs", "dot")) else os.path.relpath(first, sandbox)
    if run["mode"] == "single":
        argv.append(os.path.join("proj", *rel))
        page_path = os.path.join(outdir, ".".join(rel[-1].split(".")[:-1]) + ".rst")
    else:
        argv.append("-r")
        sp = run["spelling"]
        if sp == "name":
            argv.append("proj")
        elif sp == "trailing":
            argv.append("proj/")
        elif sp == "abs":
            argv.append(proj)
        elif sp == "dot":
            cwd = proj
            argv.append(".")
        page_path = os.path.join(outdir, *rel[:-1], ".".join(rel[-1].split(".")[:-1]) + ".rst")
    if first is not None:
        argv.insert(len(argv) - 1, first)      # the positional arguments stand together, the other input first
    exc, _ = run_main(argv, cwd, home)
    if exc:
        return {"exc": exc}, argv
    try:
        page = Page(open(page_path, encoding="utf-8").read())
    except OSError as e:
        return {"exc": "no page: %r" % (e,)}, argv
    nodes = page.nodes
    mods = [n for n in nodes if n.name == "module"]
    first = nodes[0] if nodes else None
    fn = [n for n in nodes if n.name == "function"]
    obs = {"title": page.title, "over": page.over, "under": page.under,
           "n_modules": len(mods), "module_first": bool(first is not None and first.name == "module"),
           "module": mods[0].arg if mods else None,
           "modtext": "\n".join(t for t in (mods[0].text_lines if mods else [])),
           "modfields": [list(f) for f in mods[0].fields] if mods else [], "modoptions": [list(o) for o in mods[0].options] if mods else [],
           "firstdoc": "\n".join(fn[0].text_lines) if fn else "", "stray": [list(x) for x in page.stray]}
    return obs, argv


def expected(view, run, sandbox):
    title = toks(view["title"], sandbox)
    h = run["headers"][0]
    return {"title": title, "over": h * len(title), "under": h * len(title), "n_modules": 1, "module_first": True,
            "module": toks(view["module"], sandbox), "modtext": SUBST.get(view["modtext"], view["modtext"]),
            "modfields": [["Author", "the module's author"]] if view["modtext"] else [], "modoptions": [],
            "firstdoc": SUBST.get(view["firstdoc"], view["firstdoc"]), "stray": []}


def loose_c12(beh, obs, exp, sandbox):
    """What C12 states, without fixing how prefix, separator and relative path are composed: frame of the title's
    length, one module directive first, prefix + separator at the start, extension dropped/kept, the file's own name
    in the title, @module override, module text, the next command's doc untouched."""
    run = beh["run"]
    h = run["headers"][0]
    t = obs.get("title") or ""
    m = obs.get("module") or ""
    if obs.get("over") != h * len(t) or obs.get("under") != h * len(t):
        return False
    if obs.get("n_modules") != 1 or not obs.get("module_first") or obs.get("stray"):
        return False
    if obs.get("modtext") != exp["modtext"] or obs.get("firstdoc") != exp["firstdoc"]:
        return False
    if obs.get("modfields") != exp["modfields"] or obs.get("modoptions"):
        return False
    if run["moddoc"]["kind"] == "named":
        return t == exp["title"] and m == exp["module"]
    for name, keep in ((t, run["ext_titles"]), (m, run["ext_modules"])):
        pre = exp["title"].split(run["sep"])[0] if (run["prefixsrc"] != "absent" or run["mode"] == "dir") else None
        if pre is not None and not name.startswith(pre + run["sep"]):
            return False
        if run["file"]["ext"] == ".cmake":
            if keep != name.endswith(".cmake"):
                return False
        if run["file"]["stem"] not in name or sandbox in name:
            return False
    return True


def _chunk(args):
    chunk, base = args
    out = []
    for n, beh in chunk:
        sb = tempfile.mkdtemp(prefix="c12_", dir=base)
        try:
            obs, argv = replay_one(beh, sb)
            exp = expected(beh["ideal"], beh["run"], sb)
            imp = expected(beh["impl"], beh["run"], sb)
            ok = obs == exp
            if not ok and "exc" not in obs:
                ok = "loose" if loose_c12(beh, obs, exp, sb) else False
            out.append((n, ok, obs == imp, exp, obs, argv))
        finally:
            subprocess.run(["rm", "-rf", sb])
    return out


def _init(src):
    lib.CMINX_SRC = src
    lib.use_repo_sources()


def replay(run, behs, seed, limit=None):
    if limit and len(behs) > limit:
        # every pair of descriptor values is covered (file x prefix source, spelling x earlier input, ...), then random fill
        behs = lib.covering_sample(behs, lambda b: dict({k: v for k, v in b["run"].items() if k != "file"}, file="/".join(b["run"]["file"]["rel"])), limit, seed)
        run.exhaustive = False
    base = tempfile.mkdtemp(prefix="verif_c12_", dir="/dev/shm" if os.path.isdir("/dev/shm") else None)
    try:
        items = list(enumerate(behs))
        chunks = [(items[i::lib.NCPU * 4], base) for i in range(lib.NCPU * 4)]
        chunks = [c for c in chunks if c[0]]
        with ProcessPoolExecutor(max_workers=lib.NCPU, initializer=_init, initargs=(lib.CMINX_SRC,)) as ex:
            for part in ex.map(_chunk, chunks):
                for n, ok, impl_ok, exp, obs, argv in part:
                    beh = behs[n]
                    run.behaviours += 1
                    run.count(json.dumps(beh["run"], sort_keys=True))
                    if ok == "loose":
                        run.drifted({"run": beh["run"], "expected_composition": exp, "observed": obs})
                    elif not ok:
                        r = beh["run"]
                        case = {"run": r, "argv": argv, "obs_equals_impl_model": impl_ok,
                                "features": {"mode": r["mode"], "spelling": r["spelling"], "prefixsrc": r["prefixsrc"],
                                             "moddoc": r["moddoc"]["kind"]}}
                        run.violation(case, exp, obs, "title / module directive of the page differ from what C12 prescribes")
                    elif not impl_ok:
                        run.drifted({"run": beh["run"], "impl": beh["impl"], "observed": obs})
        if behs:
            run.sample({"run": behs[0]["run"], "ideal": behs[0]["ideal"]})
    finally:
        subprocess.run(["rm", "-rf", base])


def case_collision(run):
    """Two files of one directory whose names differ only in the letter case of the extension get different titles."""
    import re
    base = tempfile.mkdtemp(prefix="verif_c12c_", dir="/dev/shm" if os.path.isdir("/dev/shm") else None)
    try:
        proj = os.path.join(base, "proj")
        os.makedirs(proj)
        home = os.path.join(base, "home")
        os.makedirs(os.path.join(home, ".config", "cminx"))
        for f in ("tool.cmake", "tool.CMAKE", "other.cmake"):
            with open(os.path.join(proj, f), "w") as fh:
                fh.write("function(f_%s)\nendfunction()\n" % f.replace(".", "_"))
        exc, out = run_main(["proj"], base, home)
        run.count("case-collision")
        titles = re.findall(r"^\n?(#+)\n(.+)\n\1$", out, re.M)
        names = [t[1] for t in titles]
        mods = re.findall(r"^\.\. module:: (.*)$", out, re.M)
        if exc or len(names) != 3 or len(set(names)) != 3 or len(set(mods)) != 3:
            run.violation({"files": ["tool.cmake", "tool.CMAKE", "other.cmake"], "features": {"case_collision": True}},
                          "three pages with pairwise different titles and module names", {"exc": exc, "titles": names, "modules": mods},
                          "different files of one run do not get different titles / module names")
        # a file in a sub-directory next to a file whose name spells that path with the separator: a/x.cmake, a.x.cmake
        proj2 = os.path.join(base, "proj2")
        os.makedirs(os.path.join(proj2, "a"))
        for f in ("a/x.cmake", "a.x.cmake", "a-x.cmake"):
            with open(os.path.join(proj2, f), "w") as fh:
                fh.write("function(f_%s)\nendfunction()\n" % re.sub(r"[^a-z]", "_", f))
        for sep in (".", "-"):
            import yaml
            sfile = os.path.join(base, "sep.yaml")
            with open(sfile, "w") as fh:
                yaml.safe_dump({"rst": {"module_path_separator": sep}, "logging": {"version": 1}}, fh)
            exc, out = run_main(["-s", sfile, "-r", "proj2"], base, home)
            run.count("separator-collision" + sep)
            names = [t[1] for t in re.findall(r"^\n?(#+)\n(.+)\n\1$", out, re.M)]
            mods = re.findall(r"^\.\. module:: (.*)$", out, re.M)
            if exc or len(names) != 3 or len(set(names)) != 3 or len(set(mods)) != 3:
                run.violation({"files": ["a/x.cmake", "a.x.cmake", "a-x.cmake"], "separator": sep, "features": {"separator_collision": True}},
                              "three pages with pairwise different titles and module names", {"exc": exc, "titles": names, "modules": mods},
                              "different files of one run do not get different titles / module names")
    finally:
        subprocess.run(["rm", "-rf", base])
