"""C16: Config.tla behaviours replayed through cminx.main with synthesised sources."""
import json
import os
import random
import subprocess
import tempfile
from concurrent.futures import ProcessPoolExecutor

import lib

BOOL_DEFAULT_FALSE = {"input.recursive", "input.follow_symlinks", "rst.file_extensions_in_titles",
                      "rst.file_extensions_in_modules"}


def short(name):
    return name.split(".")[-1][-12:]


def value(opt, kind, src, variant, defaults):
    if kind == "bool":
        d = defaults[opt]
        if src == "cli":
            return True
        flip = (src == "user") == (variant == 0)
        return (not d) if flip else d
    if kind == "str":
        # two words: a string value must arrive in one piece, whatever it contains
        # (a command-line value may begin with '@' like any other character - and it may be the empty string)
        if src == "cli" and variant == 1 and opt == "rst.prefix":
            return ""
        return ("@" if src == "cli" else "") + "%s_%s w2" % (src, short(opt))
    if kind == "list":
        return [("@" if src == "cli" else "") + "%s_pat1" % src, "%s_pat2" % src]
    if kind == "path":
        return ("@" if src == "cli" else "") + "%s_out" % src
    if kind == "strseq":
        return {"sfile": ["=", "-"], "user": ["~", "^", "+"], "cli": ["*"]}[src]
    raise ValueError(kind)


BAD = {"bool": ["notabool", 3, 0, 0.5, [True]], "str": [[1, 2], 42, True, {"a": 1}], "list": [42], "path": [42, [1]], "strseq": [42]}


def bad_value(kind, k=0):
    """a value of the wrong type for the option kind (several per kind: a number is not a boolean, a list not a string)"""
    return BAD[kind][k % len(BAD[kind])]


def documented_defaults():
    import yaml
    y = yaml.safe_load(open(os.path.join(lib.CMINX_SRC, "cminx", "config_default.yaml")))
    out = {}
    for sec in ("input", "output", "rst"):
        for k, v in (y.get(sec) or {}).items():
            out["%s.%s" % (sec, k)] = v
    return out


def replay_one(beh, kinds, sandbox, variant):
    import yaml
    import cminx
    import naming
    defaults = documented_defaults()
    work = os.path.join(sandbox, "work")
    home = os.path.join(sandbox, "home")
    cfgdir = os.path.join(sandbox, "cfgdir")
    userdir = os.path.join(home, ".config", "cminx")
    for d in (work, cfgdir, userdir, os.path.join(work, "in")):
        os.makedirs(d)
    files = {"sfile": {}, "user": {}}
    argv = []
    for opt, per in beh["asg"].items():
        sec, key = opt.split(".")
        for src, st in per.items():
            if st == "unset":
                continue
            v = value(opt, kinds[opt], src, variant, defaults) if st == "ok" else bad_value(kinds[opt], variant + len(opt))
            if src == "cli":
                if opt == "input.recursive":
                    argv += ["-r"]
                elif opt == "rst.prefix":
                    argv += ["-p", v]
                elif opt == "output.directory":
                    argv += ["-o", v]
                elif opt == "input.exclude_filters":
                    for p in v:
                        argv += ["-e", p]
            else:
                files[src].setdefault(sec, {})[key] = v
    if beh["rtc"] != "none":
        files[beh["rtc"]].setdefault("output", {})["relative_to_config"] = True
    files["sfile"].setdefault("logging", {"version": 1})
    spath = os.path.join(cfgdir, "s.yaml")
    with open(spath, "w") as fh:
        yaml.safe_dump(files["sfile"], fh)
    if files["user"]:
        with open(os.path.join(userdir, "config.yaml"), "w") as fh:
            yaml.safe_dump(files["user"], fh)
    # every second case has another directory earlier on the command line, documented for real: the Settings object
    # handed over for "in" must still be what the sources say (nothing the first input did to it may show)
    two = variant == 1
    if two:
        os.makedirs(os.path.join(work, "first"))
        with open(os.path.join(work, "first", "f.cmake"), "w") as fh:
            fh.write("function(f)\nendfunction()\n")
    argv = ["-s", spath] + argv + (["first"] if two else []) + ["in"]
    captured = []
    real = cminx.document
    import copy as _copy

    def spy(f, s):
        captured.append(_copy.deepcopy(s))
        if two and os.path.basename(os.path.normpath(f)) == "first":
            real(f, s)
    cminx.document = spy
    try:
        exc, _ = naming.run_main(argv, work, home)
    finally:
        cminx.document = real
    exp = {}
    if beh["status"] == "rejected":
        return {"rejected": True}, {"rejected": exc is not None and "Config" in exc, "exc": exc}, argv, files
    if exc or not captured:
        return {"rejected": False}, {"rejected": True, "exc": exc}, argv, files
    s = captured[-1]
    obs = {}
    for opt, src in beh["ideal"].items():
        sec, key = opt.split(".")
        got = getattr(getattr(s, sec), key)
        if opt == "input.exclude_filters":
            want = []
            for x in beh["excl"]:
                want += value(opt, "list", x, variant, defaults)
            got = list(got)
        elif opt == "output.directory":
            base = {"cwd": work, "dir-of-sfile": cfgdir, "dir-of-user": userdir, "none": None}.get(beh["outbase"], "skip")
            if base == "skip":
                continue
            want = None if src == "none" else os.path.join(base, value(opt, "path", src, variant, defaults))
        elif src in ("defaults", "none"):
            want = defaults.get(opt)
            if isinstance(got, tuple):
                got = list(got)
        else:
            want = value(opt, kinds[opt], src, variant, defaults)
        if isinstance(got, tuple):
            got = list(got)
        exp[opt] = want
        obs[opt] = got
    return exp, obs, argv, files


def _chunk(args):
    chunk, kinds, base = args
    out = []
    for n, beh in chunk:
        for variant in (0, 1):
            sb = tempfile.mkdtemp(prefix="c16_", dir=base)
            try:
                exp, obs, argv, files = replay_one(beh, kinds, sb, variant)
                if beh["status"] == "rejected":
                    ok = obs["rejected"]
                else:
                    ok = exp == obs
                out.append((n, variant, ok, exp, obs, argv, files))
            finally:
                subprocess.run(["rm", "-rf", sb])
    return out


def _init(src):
    lib.CMINX_SRC = src
    lib.use_repo_sources()


def replay(run, behs, kinds, seed, limit=None):
    behs = [b for b in behs if b["indom"]]
    if limit and len(behs) > limit:
        behs = lib.covering_sample(behs, lambda b: dict({o: json.dumps(v, sort_keys=True) for o, v in b["asg"].items()}, rtc=b["rtc"]), limit, seed)
        run.exhaustive = False
    base = tempfile.mkdtemp(prefix="verif_c16_", dir="/dev/shm" if os.path.isdir("/dev/shm") else None)
    try:
        items = list(enumerate(behs))
        chunks = [(items[i::lib.NCPU * 2], kinds, base) for i in range(lib.NCPU * 2)]
        chunks = [c for c in chunks if c[0]]
        with ProcessPoolExecutor(max_workers=lib.NCPU, initializer=_init, initargs=(lib.CMINX_SRC,)) as ex:
            for part in ex.map(_chunk, chunks):
                for n, variant, ok, exp, obs, argv, files in part:
                    beh = behs[n]
                    run.behaviours += 1
                    run.count(json.dumps([beh["asg"], beh["rtc"], variant], sort_keys=True))
                    if not ok:
                        run.violation({"asg": beh["asg"], "rtc": beh["rtc"], "argv": argv[2:], "files": files, "variant": variant,
                                       "features": {"options": sorted(beh["asg"])}},
                                      exp, obs, "the settings handed to cminx.document() are not those the layering rule prescribes")
        if behs:
            run.sample({"asg": behs[0]["asg"], "rtc": behs[0]["rtc"], "ideal_source": behs[0]["ideal"]})
    finally:
        subprocess.run(["rm", "-rf", base])
