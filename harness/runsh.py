"""C17 (runs of one process under different descriptors) and C19 (cminx_gen_rst through cmake -P)."""
import hashlib
import json
import os
import random
import shutil
import subprocess
import sys
import tempfile
from concurrent.futures import ThreadPoolExecutor

import lib

PY = "/venv/bin/python"
DRIVER = os.path.join(os.path.dirname(os.path.abspath(__file__)), "run_driver.py")


# a documented command with too few arguments: reported in the log, no entry - and nothing of where the file lies
MALFORMED = "#[[[\n# malformed on purpose\n#]]\noption(ONLY_A_NAME)\n"


def module_text(seed, n=25):
    import aggtrace
    rng = random.Random(seed)
    return "#[[[\n# top function of module %d\n# :keyword x: y\n#]]\nfunction(top_%d a b)\n  cmake_parse_arguments(x \"\" \"\" \"\" ${ARGN})\nendfunction()\n" % (seed, seed) \
        + (MALFORMED if seed % 2 == 1 else "") + aggtrace.gen_program(rng, n)


TREES = {
    # (sub/x.cmake has the contents and the base name of x.cmake: only the relative path tells them apart)
    "treeA": {"x.cmake": 11, "sub/x.cmake": 11, "b.cmake": 12, "a_gen.cmake": 18, "keep_gen.cmake": 19, "sub/c_gen.cmake": 20, "sub/y.cmake": 13, "sub/Y.cmake": 23, "sub/Z.CMAKE": 14, "sub/z2.cmake": 15, "sub/deep/w.cmake": 16, "sub/notes.txt": None, "aa/q.cmake": 17},
    "treeB": {"m.cmake": 21, "k/n.cmake": 22},
    "flat": {"f1.cmake": 31, "f2.cmake": 32},
    "std:v2": {"c1.cmake": 33, "in:ner/c2.cmake": 34},
}
FILES = {"solo.cmake": 41, "other.cmake": 42}


def materialise(root):
    os.makedirs(root, exist_ok=True)
    for t, files in TREES.items():
        for rel, seed in files.items():
            p = os.path.join(root, t, rel)
            os.makedirs(os.path.dirname(p), exist_ok=True)
            with open(p, "w") as fh:
                fh.write(module_text(seed) if seed else "notes\n")
    for f, seed in FILES.items():
        with open(os.path.join(root, f), "w") as fh:
            fh.write(module_text(seed))
    with open(os.path.join(root, "broken.cmake"), "w") as fh:
        fh.write("function(f a)\nmessage(\"unterminated\nendfunction()\n(\n")
    # symbolic links with other names than their targets; a tree whose top directory holds a broken file
    if not os.path.lexists(os.path.join(root, "linkA")):
        os.symlink("treeA", os.path.join(root, "linkA"))
        os.symlink("solo.cmake", os.path.join(root, "linksolo.cmake"))
    # a link inside treeA to one of its own sub-directories (walked twice when links are followed)
    if not os.path.lexists(os.path.join(root, "treeA", "zz_vendor")):
        os.symlink("aa", os.path.join(root, "treeA", "zz_vendor"))
        os.symlink("sub", os.path.join(root, "treeA", "a_first"))
    os.makedirs(os.path.join(root, "brokentree", "zsub"), exist_ok=True)
    with open(os.path.join(root, "brokentree", "broken.cmake"), "w") as fh:
        fh.write("function(f a)\nmessage(\"unterminated\nendfunction()\n(\n")
    with open(os.path.join(root, "brokentree", "zsub", "fine.cmake"), "w") as fh:
        fh.write(module_text(51))


def read_tree(root):
    out = {}
    for r, ds, fs in os.walk(root):
        for f in fs:
            p = os.path.join(r, f)
            out[os.path.relpath(p, root)] = open(p, "rb").read()
    return out


def run_process(argv, cwd, home, hashseed=0, perm="sorted", repeat=1, timeout=120, extra_env=None):
    env = {"PATH": os.environ.get("PATH", ""), "HOME": home, "XDG_CONFIG_HOME": os.path.join(home, ".config"),
           "PYTHONHASHSEED": str(hashseed), "VERIF_CMINX_SRC": lib.CMINX_SRC, "VERIF_PERM": perm, "VERIF_REPEAT": str(repeat)}
    env.update(extra_env or {})
    p = subprocess.run([PY, DRIVER] + argv, cwd=cwd, env=env, stdout=subprocess.PIPE, stderr=subprocess.PIPE, timeout=timeout)
    return p.returncode, p.stdout.decode("utf8", "replace"), p.stderr.decode("utf8", "replace")


def settings_file(path):
    with open(path, "w") as fh:
        # several exclude patterns, one negated: gitignore rules are order sensitive, the order must not depend on the process
        fh.write("input:\n  recursive: true\n  follow_symlinks: true\n  exclude_filters: ['*_gen.cmake', '!keep_gen.cmake', 'zz*', 'notes.txt', 'treeA/aa/', 'locA/treeA/b.cmake']\nlogging:\n  version: 1\n")


# ---------------------------------------------------------------- C17
def expected_files(inp):
    """paths (relative to the output directory) the input is responsible for"""
    if inp["kind"] == "file":
        return None
    return None


def c17_case(beh, sandbox, baseline_cache, lock):
    desc, inputs = beh["desc"], beh["inputs"]
    home = os.path.join(sandbox, "home")
    os.makedirs(os.path.join(home, ".config", "cminx"), exist_ok=True)
    loc = os.path.join(sandbox, "locA") if desc["location"] == "locA" else os.path.join(sandbox, "deeper", "x y", "locB")
    materialise(loc)
    sfile = os.path.join(sandbox, "s.yaml")
    settings_file(sfile)
    out = os.path.join(sandbox, "out")
    dot = desc["spelling"] == "dot" and len(inputs) == 1 and inputs[0]["kind"] == "dir"
    dotdot = desc["spelling"] == "dotdot" and len(inputs) == 1 and inputs[0]["kind"] == "dir"
    if dot:
        cwd = os.path.join(loc, inputs[0]["name"])
    elif dotdot:
        # the input directory spelled ".." from its first sub-directory
        top = os.path.join(loc, inputs[0]["name"])
        cwd = os.path.join(top, sorted(d for d in os.listdir(top) if os.path.isdir(os.path.join(top, d)))[0])
    elif desc["cwd"] == "parent":
        cwd = loc
    elif desc["cwd"] == "elsewhere":
        cwd = os.path.join(sandbox, "cwd2")
        os.makedirs(cwd, exist_ok=True)
    else:
        cwd = "/"
    spelled = []
    for inp in inputs:
        p = os.path.join(loc, inp["name"])
        if dot:
            s = "."
        elif dotdot:
            s = ".."
        elif desc["spelling"] == "dotdot":
            s = os.path.join(os.path.relpath(loc, cwd), "treeA", "..", inp["name"])
        elif desc["spelling"] == "abs":
            s = p
        elif desc["spelling"] == "trailing" and inp["kind"] == "dir":
            s = os.path.relpath(p, cwd) + "/"
        else:
            s = os.path.relpath(p, cwd)
        spelled.append(s)
    argv = ["-s", sfile, "-o", out] + (["-p", "pfx"] if desc["prefix"] != "<none>" else []) + spelled
    rc, so, se = run_process(argv, cwd, home, desc["hashseed"], desc["perm"], desc["repeat"])
    if rc != 0:
        return "exit status 0", "exit status %d: %s" % (rc, se[-300:]), "the run failed"
    got = read_tree(out)
    # reference: every input alone, canonical descriptor
    want = {}
    for inp in inputs:
        key = (inp["name"], desc["prefix"])
        with lock:
            ref = baseline_cache.get(key)
        if ref is None:
            bsb = tempfile.mkdtemp(prefix="base_", dir=sandbox)
            bloc = os.path.join(bsb, "locA")
            materialise(bloc)
            bs = os.path.join(bsb, "s.yaml")
            settings_file(bs)
            bhome = os.path.join(bsb, "home")
            os.makedirs(os.path.join(bhome, ".config", "cminx"))
            bout = os.path.join(bsb, "out")
            rc, so, se = run_process(["-s", bs, "-o", bout] + (["-p", "pfx"] if desc["prefix"] != "<none>" else []) + [inp["name"]],
                                     bloc, bhome, 0, "sorted", 1)
            if rc != 0:
                raise lib.MachineryError("baseline run failed: " + se[-300:])
            ref = read_tree(bout)
            with lock:
                baseline_cache[key] = ref
        want.update(ref)
    if got != want:
        diff = sorted(set(got) ^ set(want)) + [p for p in got if p in want and got[p] != want[p]]
        first = diff[0]
        return {"files": sorted(want), "first_differing": first, "content": want.get(first, b"").decode("utf8", "replace")[:600]}, \
               {"files": sorted(got), "content": got.get(first, b"").decode("utf8", "replace")[:600]}, \
               "generated files differ from those of the canonical run (each input alone, from its parent directory, sorted listing, hash seed 0)"
    # the title of every page is made of the prefix and the file's path relative to its input, whatever else the
    # process has seen (two files with the same contents and base name are still two files)
    for inp in inputs:
        pre = "pfx" if desc["prefix"] != "<none>" else (inp["name"] if inp["kind"] == "dir" else None)
        srcs = list(TREES[inp["name"]]) if inp["kind"] == "dir" else [inp["name"]]
        for rel in srcs:
            if not rel.lower().endswith(".cmake"):
                continue
            page = got.get(".".join(rel.split(".")[:-1]) + ".rst") if inp["kind"] == "dir" else got.get(".".join(os.path.basename(rel).split(".")[:-1]) + ".rst")
            if page is None:
                continue
            shown = rel[:-len(".cmake")] if rel.endswith(".cmake") else rel
            if inp["kind"] != "dir":
                shown = os.path.basename(shown)
            want_title = (pre + "." if pre else "") + shown
            lines = [l for l in page.decode("utf8", "replace").split("\n") if l.strip()]
            title = lines[1] if len(lines) > 2 else None
            if title != want_title:
                twins = [r for r in srcs if r != rel and os.path.basename(r) == os.path.basename(rel)]
                if twins or title is None:
                    return {rel: want_title}, {rel: title}, "a page is not titled with the prefix and its own relative path"
    # what a page shows besides its path-derived title and module name depends on the file's contents and the settings
    # only - not on what the same process documented before it: compare with the file documented alone
    for inp in inputs:
        for rel in SOLO_FILES.get(inp["name"], []):
            page = got.get(rel[:-len(".cmake")] + ".rst")
            if page is None:
                continue
            key = ("solo", inp["name"], rel)
            with lock:
                ref = baseline_cache.get(key)
            if ref is None:
                bsb = tempfile.mkdtemp(prefix="solo_", dir=sandbox)
                bloc = os.path.join(bsb, "locA")
                materialise(bloc)
                bs = os.path.join(bsb, "s.yaml")
                settings_file(bs)
                bhome = os.path.join(bsb, "home")
                os.makedirs(os.path.join(bhome, ".config", "cminx"))
                bout = os.path.join(bsb, "out")
                rc, so, se = run_process(["-s", bs, "-o", bout, os.path.join(inp["name"], rel)], bloc, bhome, 0, "sorted", 1)
                if rc != 0:
                    raise lib.MachineryError("solo run failed: " + se[-300:])
                ref = body_of(read_tree(bout)[os.path.basename(rel)[:-len(".cmake")] + ".rst"])
                with lock:
                    baseline_cache[key] = ref
            if body_of(page) != ref:
                return {rel: (ref or b"").decode("utf8", "replace")[:600]}, {rel: (body_of(page) or b"").decode("utf8", "replace")[:600]}, \
                    "the content of a page differs from the page of the same file documented alone"
    return None


SOLO_FILES = {"treeA": ["x.cmake", "sub/z2.cmake"], "treeB": ["m.cmake", "k/n.cmake"]}


def body_of(page):
    parts = page.split(b".. module::", 1)
    return parts[1].split(b"\n", 1)[1] if len(parts) == 2 and b"\n" in parts[1] else None


def replay_c17(run, behs, seed, limit):
    import threading
    rng = random.Random(seed)
    if len(behs) > limit:
        # pairs of descriptor values (spelling x working directory, input list x prefix, ...) are all covered
        behs = lib.covering_sample(behs, lambda b: dict(b["desc"], inputs="+".join(i["name"] for i in b["inputs"]),
                                                        first=b["inputs"][0]["name"], n=len(b["inputs"])), limit, seed)
        run.exhaustive = False
    base = tempfile.mkdtemp(prefix="verif_c17_", dir="/dev/shm" if os.path.isdir("/dev/shm") else None)
    cache, lock = {}, threading.Lock()

    def one(item):
        n, beh = item
        sb = tempfile.mkdtemp(prefix="c17_", dir=base)
        try:
            return n, c17_case(beh, sb, cache, lock)
        finally:
            subprocess.run(["rm", "-rf", sb])
    try:
        with ThreadPoolExecutor(max_workers=lib.NCPU) as ex:
            for n, r in ex.map(one, list(enumerate(behs))):
                beh = behs[n]
                run.behaviours += 1
                run.count(json.dumps(beh, sort_keys=True))
                if r is not None:
                    exp, got, why = r
                    run.violation({"desc": beh["desc"], "inputs": beh["inputs"], "features": dict(beh["desc"], n_inputs=len(beh["inputs"]))},
                                  exp, got, why)
        if behs:
            run.sample(behs[0])
    finally:
        subprocess.run(["rm", "-rf", base])


# ---------------------------------------------------------------- C19
SHIM = """#!/bin/bash
# recording shim bound to CMINX_EXECUTABLE: logs argv, runs the working-tree CMinx, returns its status
printf '%s\\n' "$@" > "{log}.argv"
echo "$#" > "{log}.argc"
VERIF_CMINX_SRC="{src}" VERIF_PERM=sorted VERIF_REPEAT=1 HOME="{home}" XDG_CONFIG_HOME="{home}/.config" {py} {driver} "$@"
st=$?
echo $st > "{log}.status"
exit $st
"""


def c19_case(case, sandbox):
    inp_root = os.path.join(sandbox, "IN")
    materialise(inp_root)
    home = os.path.join(sandbox, "home")
    os.makedirs(os.path.join(home, ".config", "cminx"))
    sfile = os.path.join(sandbox, "extra.yaml")
    with open(sfile, "w") as fh:
        fh.write("rst:\n  module_path_separator: '::'\nlogging:\n  version: 1\n")

    # for two input kinds every path is RELATIVE (to the directory cmake is started in, which is not the directory of
    # the calling script): it reaches the executable as given and means the same as on the command line
    relative = case["input"]["kind"] in ("nesteddir", "file")

    def conc(t, out):
        return t.replace("IN/", "IN/" if relative else inp_root + "/").replace("SFILE", sfile).replace("OUT", out).replace("PFX", "pfx")
    out_cmake = "out_cmake" if relative else os.path.join(sandbox, "out_cmake")
    out_cli = "out_cli" if relative else os.path.join(sandbox, "out_cli")
    log = os.path.join(sandbox, "shim")
    shim = os.path.join(sandbox, "cminx-shim.sh")
    with open(shim, "w") as fh:
        fh.write(SHIM.format(log=log, src=lib.CMINX_SRC, home=home, py=PY, driver=DRIVER))
    os.chmod(shim, 0o755)
    extra = [conc(x, out_cmake) for x in case["extra"]]
    os.makedirs(os.path.join(sandbox, "ci"), exist_ok=True)
    script = os.path.join(sandbox, "ci", "gen.cmake") if relative else os.path.join(sandbox, "gen.cmake")
    with open(script, "w") as fh:
        call = 'cminx_gen_rst("%s" "%s" %s)' % (conc(case["input"]["path"], out_cmake), out_cmake, " ".join(cmake_quote(x) for x in extra))
        if len(case["extra"]) % 2 == 1 or case["input"]["kind"] in ("flatdir", "linkedfile"):
            # called from inside a project function that has arguments of its own (more than cminx_gen_rst gets)
            call = "function(project_docs a1 a2 a3 a4 a5 a6 a7 a8)\n  %s\nendfunction()\nproject_docs(p1 p2 p3 p4 p5 p6 p7 p8 p9)" % call
        fh.write('set(CMINX_EXECUTABLE "%s")\ninclude("%s")\n%s\nfile(WRITE "%s" "continued")\n'
                 % (shim, os.path.join(lib.REPO, "cmake", "cminx.cmake"), call, os.path.join(sandbox, "after.txt")))
    p = subprocess.run(["cmake", "-P", script], cwd=sandbox, stdout=subprocess.PIPE, stderr=subprocess.PIPE, timeout=300)
    cm_rc = p.returncode
    continued = os.path.exists(os.path.join(sandbox, "after.txt"))
    if not os.path.exists(log + ".argv"):
        return "the executable is run", "not run: " + p.stderr.decode()[-300:], "cminx_gen_rst did not run CMINX_EXECUTABLE"
    logged = open(log + ".argv").read().split("\n")[:-1]
    status = int(open(log + ".status").read().strip())
    want_argv = [conc(x, out_cmake) for x in case["argv"][1:]]
    if logged != want_argv:
        return want_argv, logged, "argument vector passed to the executable differs from input, [-r iff directory], extra arguments verbatim, -o output"
    if case["input"]["kind"] in ("syntaxerror", "brokentop", "missing") and (cm_rc == 0 or continued):
        # CMinx cannot document these inputs (a file with a syntax error, a tree that contains one, a missing path):
        # whatever status the executable reports, the configure step must not go on without the documentation
        return {"cmake_fails": True}, {"cminx_status": status, "cmake_status": cm_rc, "script_continued": continued}, \
            "CMinx could not document the input but the CMake call did not fail fatally"
    if (status != 0) != (cm_rc != 0) or (status != 0 and continued):
        return {"cminx_status": status, "cmake_fails": status != 0}, {"cmake_status": cm_rc, "script_continued": continued}, \
            "CMake does not fail fatally exactly when CMinx fails"
    # the same command line run directly
    argv_cli = [conc(x, out_cli) for x in case["argv"][1:]]
    rc, so, se = run_process(argv_cli, sandbox, home)
    if (rc != 0) != (status != 0):
        return "same exit behaviour", [rc, status], "direct run and wrapped run disagree on failure"
    oc, ol = os.path.join(sandbox, out_cmake), os.path.join(sandbox, out_cli)
    t1 = read_tree(oc) if os.path.isdir(oc) else {}
    t2 = read_tree(ol) if os.path.isdir(ol) else {}
    if t1 != t2:
        return sorted(t2), sorted(t1), "output tree of cminx_gen_rst differs from the direct command line run"
    return None


def cmake_quote(x):
    """a CMake quoted argument that evaluates to exactly x"""
    return '"' + x.replace("\\", "\\\\").replace('"', '\\"').replace("$", "\\$") + '"'


def genrst_case(beh, sandbox, route="cmake"):
    """GenRst.tla: a history of edits, page deletions and calls on one build tree - calls of cminx_gen_rst through
    cmake -P (route "cmake") or of the command line itself into the same output directory (route "cli"); after the
    last call the output tree must be what a fresh command-line run produces for the inputs as they are now"""
    inp_root = os.path.join(sandbox, "IN")
    materialise(inp_root)
    home = os.path.join(sandbox, "home")
    os.makedirs(os.path.join(home, ".config", "cminx"))
    sfile = os.path.join(sandbox, "extra.yaml")
    seps = ["::", "--", "__"]

    def write_settings(v):
        with open(sfile, "w") as fh:
            fh.write("rst:\n  module_path_separator: '%s'\nlogging:\n  version: 1\n" % seps[v % 3])
    nset = 0
    write_settings(nset)
    out_cmake = os.path.join(sandbox, "out_cmake")
    out_cli = os.path.join(sandbox, "out_cli")
    log = os.path.join(sandbox, "shim")
    shim = os.path.join(sandbox, "cminx-shim.sh")
    with open(shim, "w") as fh:
        fh.write(SHIM.format(log=log, src=lib.CMINX_SRC, home=home, py=PY, driver=DRIVER))
    os.chmod(shim, 0o755)
    tree = os.path.join(inp_root, "treeA")
    script = os.path.join(sandbox, "gen.cmake")
    with open(script, "w") as fh:
        fh.write('set(CMINX_EXECUTABLE "%s")\ninclude("%s")\ncminx_gen_rst("%s" "%s" "-s" "%s")\n'
                 % (shim, os.path.join(lib.REPO, "cmake", "cminx.cmake"), tree, out_cmake, sfile))
    # "shape": treeA/solo holds exactly one *.cmake file, which goes away and comes back (the directory stays)
    only = os.path.join(tree, "solo", "only.cmake")
    only_text = "#[[[\n# the only module of its directory\n#]]\nfunction(only_one)\nendfunction()\n"
    os.makedirs(os.path.dirname(only))
    with open(only, "w") as fh:
        fh.write(only_text)
    ops = []            # route "inproc": the whole history is executed by ONE driver process at the end
    cur_out = out_cmake
    snap = os.path.join(sandbox, "snapshot_of_first_output")

    def do(op):
        if route == "inproc":
            ops.append(op)
        elif op[0] == "append":
            with open(op[1], "a") as fh:
                fh.write(op[2])
            if op[3] is not None:
                os.utime(op[1], (op[3], op[3]))
        elif op[0] == "unlink":
            if os.path.exists(op[1]):
                os.unlink(op[1])
        elif op[0] == "toggle":
            if os.path.exists(op[1]):
                os.unlink(op[1])
            else:
                with open(op[1], "w") as fh:
                    fh.write(op[2])
        elif op[0] == "snapshot":
            if os.path.isdir(op[1]):
                shutil.copytree(op[1], op[2], symlinks=True)
    for k, act in enumerate(beh["hist"]):
        if act == "edit-lower":
            do(["append", os.path.join(tree, "x.cmake"), "#[[[\n# added %d\n#]]\nfunction(added_%d)\nendfunction()\n" % (k, k), None])
        elif act == "edit-upper":
            do(["append", os.path.join(tree, "sub", "Z.CMAKE"), "#[[[\n# added %d\n#]]\nfunction(added_up_%d)\nendfunction()\n" % (k, k), None])
        elif act == "edit-settings":
            nset += 1
            if route == "inproc":
                ops.append(["write", sfile, "rst:\n  module_path_separator: '%s'\nlogging:\n  version: 1\n" % seps[nset % 3]])
            else:
                write_settings(nset)
        elif act == "edit-backdated":
            # 1 January 2000: older than any page
            do(["append", os.path.join(tree, "sub", "y.cmake"),
                "#[[[\n# back-dated revision %d\n#]]\nfunction(backdated_%d)\nendfunction()\n" % (k, k), 946684800 + k])
        elif act == "edit-shape":
            do(["toggle", only, only_text])
        elif act == "delete-page":
            do(["unlink", os.path.join(cur_out, "x.rst")])
        elif act == "switch-output":
            do(["snapshot", cur_out, snap])
            cur_out = os.path.join(sandbox, "out_second")
            with open(script, "w") as fh:
                fh.write('set(CMINX_EXECUTABLE "%s")\ninclude("%s")\ncminx_gen_rst("%s" "%s" "-s" "%s")\n'
                         % (shim, os.path.join(lib.REPO, "cmake", "cminx.cmake"), tree, cur_out, sfile))
        elif act == "call" and route == "inproc":
            ops.append(["main", [tree, "-r", "-s", sfile, "-o", cur_out]])
        elif act == "call" and route == "cli":
            rc, so, se = run_process([tree, "-r", "-s", sfile, "-o", cur_out], sandbox, home)
            if rc != 0:
                return "exit status 0", se[-300:], "the command line failed on valid input"
        elif act == "call":
            p = subprocess.run(["cmake", "-P", script], cwd=sandbox, stdout=subprocess.PIPE, stderr=subprocess.PIPE, timeout=300)
            if p.returncode != 0:
                return "cmake -P succeeds", p.stderr.decode()[-300:], "cminx_gen_rst failed on valid input"
        else:
            raise lib.MachineryError("GenRst history with an action the harness does not know: %r" % (act,))
    if route == "inproc":
        hfile = os.path.join(sandbox, "history.json")
        with open(hfile, "w") as fh:
            json.dump(ops, fh)
        rc, so, se = run_process([], sandbox, home, extra_env={"VERIF_HISTORY": hfile})
        if rc != 0:
            return "exit status 0", se[-300:], "a sequence of command lines inside one process failed on valid input"
    if cur_out != out_cmake and os.path.isdir(snap):
        before, after = read_tree(snap), (read_tree(out_cmake) if os.path.isdir(out_cmake) else {})
        if before != after:
            diff = sorted(k for k in set(before) | set(after) if before.get(k) != after.get(k))
            return {"first output directory": "as it was when the caller switched to another one"}, {"differing": diff[:8]}, \
                "a call aimed at another output directory changed the first one"
    out_cmake = cur_out
    rc, so, se = run_process([tree, "-r", "-s", sfile, "-o", out_cli], sandbox, home)
    if rc != 0:
        raise lib.MachineryError("reference command line run failed: " + se[-300:])
    t1 = read_tree(out_cmake) if os.path.isdir(out_cmake) else {}
    t2 = read_tree(out_cli)
    if "edit-shape" in beh["hist"]:
        # CMinx never deletes pages: those of a source that has gone away since an earlier call stay where they are
        t1 = {k: v for k, v in t1.items() if k in t2 or not k.startswith("solo" + os.sep)}
    if t1 != t2:
        diff = sorted(k for k in set(t1) | set(t2) if t1.get(k) != t2.get(k))
        return {"files": sorted(t2)}, {"files": sorted(t1), "differing": diff[:8]}, \
            "after the last call the output tree is not what the command line produces for the current sources and settings"
    return None


def replay_genrst(run, behs, route="cmake"):
    base = tempfile.mkdtemp(prefix="verif_genrst_", dir="/dev/shm" if os.path.isdir("/dev/shm") else None)

    def one(item):
        n, beh = item
        sb = tempfile.mkdtemp(prefix="g_", dir=base)
        try:
            return n, genrst_case(beh, sb, route)
        finally:
            subprocess.run(["rm", "-rf", sb])
    try:
        with ThreadPoolExecutor(max_workers=lib.NCPU) as ex:
            for n, r in ex.map(one, list(enumerate(behs))):
                run.behaviours += 1
                run.count("genrst-%s:" % route + "|".join(behs[n]["hist"]))
                if r is not None:
                    exp, got, why = r
                    run.violation({"history": behs[n]["hist"], "route": route, "features": {"calls": behs[n]["hist"].count("call")}}, exp, got, why)
        if behs:
            run.sample({"history_of_calls_and_edits": behs[len(behs) // 2]["hist"]})
    finally:
        subprocess.run(["rm", "-rf", base])


def replay_c19(run, cases):
    base = tempfile.mkdtemp(prefix="verif_c19_", dir="/dev/shm" if os.path.isdir("/dev/shm") else None)

    def one(item):
        n, case = item
        sb = tempfile.mkdtemp(prefix="c19_", dir=base)
        try:
            return n, c19_case(case, sb)
        finally:
            subprocess.run(["rm", "-rf", sb])
    try:
        with ThreadPoolExecutor(max_workers=lib.NCPU) as ex:
            for n, r in ex.map(one, list(enumerate(cases))):
                run.behaviours += 1
                run.count(json.dumps(cases[n], sort_keys=True))
                if r is not None:
                    exp, got, why = r
                    run.violation({"case": cases[n], "features": {"input_kind": cases[n]["input"]["kind"]}}, exp, got, why)
        run.sample(cases[0])
    finally:
        subprocess.run(["rm", "-rf", base])
