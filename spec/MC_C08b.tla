------------------------------- MODULE MC_C08b -------------------------------
EXTENDS Aggregator, AggAlphabet
\* macros, constructors, tests, sections, CTest tests, options inside one class (prefix)
Cmds == <<
  C("cpp_class", <<"@">>),
  C("cpp_constructor", <<"@", "C", "int">>),
  C("macro", <<"@", "self">>), C("endmacro", <<>>),
  C("ct_add_test", <<"NAME", "@">>),
  C("ct_add_section", <<"NAME", "@">>),
  C("add_test", <<"NAME", "@", "COMMAND", "p">>),
  C("option", <<"@", "\"help\"">>),
  C("set", <<"@", "v">>)
>>
Pre == <<[ci |-> CHOOSE j \in 1..Len(Cmds) : Cmds[j].k = "cpp_class", d |-> TRUE]>>
MCPats == [f |-> FALSE, m |-> FALSE, x |-> FALSE]
ASSUME PrintT(<<"PATS", ToJson(MCPats)>>)
NoDev == {}
CurrentDev == {"D_ClassOffPushesNone"}
Both == {TRUE, FALSE}
Varied == {"macro", "cpp_constructor", "ct_add_test", "ct_add_section", "add_test", "option"}
Flags == {[f \in FlagKinds |-> IF f \in Varied THEN b[f] ELSE TRUE] : b \in [Varied -> BOOLEAN]}
         \cup {[f \in FlagKinds |-> FALSE]}        \* and everything off at once
=============================================================================
