------------------------------ MODULE TraceLex ------------------------------
(***************************************************************************)
(* Binding B for the lexer: token streams recorded from the real           *)
(* CMakeLexer (harness/lexh.py real_lex) on files TLC did not choose - the *)
(* repository's fixtures, random modules, the modules shipped with CMake - *)
(* are validated character step by character step against the step        *)
(* machine of CMakeLex.  One TLC run validates a batch; Init picks the     *)
(* trace.  Verdict lines: END (accepted: every token and error agrees),    *)
(* REJ (first disagreement, with both sides).                              *)
(***************************************************************************)
EXTENDS CMakeLex, Json, IOUtils

Batch == JsonDeserialize(IOEnv.TRACE_FILE)
Traces == Batch.traces

VARIABLES tid, lx, ntok, nerr, status
vars == <<tid, lx, ntok, nerr, status>>
Tr == Traces[tid]

Init == tid \in 1..Len(Traces) /\ lx = LexInit /\ ntok = 0 /\ nerr = 0 /\ status = "run"

Step ==
  /\ status = "run"
  /\ LET l1 == LexStep(lx, Tr.text)
         newTok == Len(l1.toks) > 0
         newErr == Len(l1.errs) > 0
         tokOk == ~newTok \/ (ntok < Len(Tr.toks) /\ Tr.toks[ntok + 1] = <<l1.toks[1].k, l1.toks[1].from, l1.toks[1].to>>)
         errOk == ~newErr \/ (nerr < Len(Tr.errs) /\ Tr.errs[nerr + 1] = <<l1.errs[1].from, l1.errs[1].to>>)
         finished == l1.done
         countsOk == ~finished \/ (ntok = Len(Tr.toks) /\ nerr = Len(Tr.errs))
     IN IF tokOk /\ errOk /\ countsOk
        THEN /\ lx' = [l1 EXCEPT !.toks = <<>>, !.errs = <<>>]      \* compared: no need to carry them along
             /\ ntok' = IF newTok THEN ntok + 1 ELSE ntok
             /\ nerr' = IF newErr THEN nerr + 1 ELSE nerr
             /\ status' = IF finished THEN "acc" ELSE "run"
             /\ (finished => PrintT(<<"END", ToJson([tid |-> tid, id |-> Tr.id, tokens |-> ntok, errors |-> nerr, chars |-> Len(Tr.text)])>>))
        ELSE /\ PrintT(<<"REJ", ToJson([tid |-> tid, id |-> Tr.id, at |-> lx.start, ntok |-> ntok,
                                       model_token |-> IF newTok THEN <<l1.toks[1].k, l1.toks[1].from, l1.toks[1].to>> ELSE <<>>,
                                       observed_token |-> IF ntok < Len(Tr.toks) THEN Tr.toks[ntok + 1] ELSE <<>>,
                                       model_error |-> IF newErr THEN <<l1.errs[1].from, l1.errs[1].to>> ELSE <<>>,
                                       observed_errors |-> Tr.errs, finished |-> finished])>>)
             /\ status' = "rej" /\ UNCHANGED <<lx, ntok, nerr>>
  /\ UNCHANGED tid
Next == Step
Spec == Init /\ [][Next]_vars
=============================================================================
