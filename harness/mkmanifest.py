#!/venv/bin/python
"""Regenerate MANIFEST.json from the table below (keeps it valid and in step with the checks that exist)."""
import json
import os
import sys

sys.path.insert(0, os.path.dirname(os.path.abspath(__file__)))
V = os.path.dirname(os.path.dirname(os.path.abspath(__file__)))

TECH = "TLC model checking of the explicit TLA+ specification + conformance: spec behaviours replayed into the real code (A) and recorded executions validated by TLC (B)"
CLAIMS = {
    "C02": ("spec/AggOps.tla, Aggregator.tla, MC_C02a/b.tla, TraceAggregator.tla",
            "TLC checks C02_EntriesMatch (Impl listener machine vs. Req ideal entries) exhaustively for all well-formed programs up to the length/depth bound over two command alphabets, plus random long behaviours; every terminal behaviour is replayed through the real Documenter and the page's entry kinds/names/order are compared with the ideal; recorded executions of the real aggregator on random rich programs and the repository's fixtures are validated event by event by TLC, which also evaluates the property on the observed entries.",
            "bounded program length/nesting and finite argument menus; concretiser/projector trusted; re.sub/str.upper results are inputs of the spec", "4 C02"),
    "C03": ("spec/AggOps.tla, Aggregator.tla, MC_C03.tla, TraceAggregator.tla",
            "TLC checks C03_Signatures and the refinement StackRefines (definition stack = true nesting) on the specification for all programs up to the bound; behaviours replayed into the real code compare the argument of every function directive; traces of real executions validated by TLC.",
            "strip patterns from {'', '^_p_'}; trigger ':keyword'; bounds as in evidence", "4 C03"),
    "C01": ("spec/DocClean.tla, MC_DocClean.tla",
            "TLC enumerates every canonical doccomment block over the character-class alphabet (indentation x body lines, with and without '#' leaders) and checks C01_CleanIsIdentity on the transcription of clean_doc_lines; every block is replayed into the real function, and a stratified share goes through the whole pipeline attached to each of 13 entry kinds at nesting depth 0-2, where the doc lines must appear once, contiguously, verbatim and inside the item's directive.",
            "bounded line length / line count / class alphabet (one non-ASCII class); concretiser pools seeded", "4 C01"),
    "C04": ("spec/DocClean.tla, CMakeLex.tla/CMakeGen.tla, Aggregator.tla (witness programs)",
            "(a) TLC checks C04_IndentIrrelevant on clean_doc_lines for every block x indentation and replays indented/unindented pairs on the real function; (b) TLC checks that the same tokens under any trivia of the catalogue lex to the same tokens (RefAgree on the comment-rich menu), replayed on the real lexer/parser; (c) every witness program of the aggregator model is run through the real pipeline in a baseline layout and in seeded variant layouts (catalogue trivia between all tokens, re-indented doccomments, re-cased names, CRLF) and the pages compared byte for byte.",
            "trivia only between tokens with a whitespace kept between arguments; variants are a seeded sample of the layout space", "4 C04"),
    "C05": ("spec/CMakeLex.tla, CMakeGen.tla, MC_C05.tla, TraceLex.tla, CMakeLang.tla, CMakeParse.tla, TraceParse.tla",
            "CMakeParse.tla models the parser between lexer and aggregator (token kinds -> accept/error and listener events) and TLC checks that it accepts exactly the language described by the parenthesis depth profile, with one command event per top-level command and the stream's direct-argument boundaries; every in-language token stream up to the bound is written out and must be accepted by the real Documenter with those boundaries. The generated lexer is modelled as the step machine ANTLR runs (parallel rules by derivatives, last-accept register, rule priority, non-greedy stop, EOF symbol, error recovery); TLC builds files from the productions of cmake-language(7) with boundaries known by construction and checks RefAgree; every file is run through the real lexer/parser/Documenter (acceptance, command sequence, argument texts and positions); token streams and error spans of the real lexer on fixtures, random modules, noise strings and the modules shipped with CMake are validated character step by character step by TLC (TraceLex.tla); corpus modules that CMake itself parses must be processed cleanly; every module with doccomments is followed in the same process by its twin whose doccomments are plain bracket comments of the same length (same commands at the same offsets, undocumented), which must be processed to completion too.",
            "class alphabet; bracket levels {0,1,2} in generation ({0,1,2,4,40,70,71} for the corpus); legacy constructs and BOM out of scope", "4 C05"),
    "C06": ("spec/CMinx.tla, CMakeParse.tla, CMakeLex.tla, CMakeGen.tla (InjectFault), MC_C05.tla",
            "CMinx.tla: the pipeline as one machine (fault kinds x file order x input mode) replayed through cminx.main; CMakeParse.tla: every token stream up to the bound that leaves the language (unbalanced parentheses, stray tokens, bare words) must make the real Documenter.process raise. TLC builds valid files from the reference productions, injects one fault string at every position and predicts with the lexer/parser model whether the fault is noticed; every faulted file goes through the real cminx.main as a single input and inside a directory: where the reference rejects the file (cmake -P parse error, or backslash before an alphanumeric per the manual) an error, non-zero status and no .rst are demanded, and a page must never be written when the real lexer skipped characters; the pipeline machine (CMinx.tla) is replayed in three input modes: separate inputs, one directory, and separate inputs whose pages collide in one output file.",
            "faults inside comments / bracket arguments and backslash-newline not judged; single faults (pairs via -simulate not yet); known finding K3", "4 C06"),
    "C07": ("spec/EntryRender.tla, RstWriter.tla, MC_C07.tla; docutils 0.23 with stub directives",
            "TLC renders every page of the menu (entry kinds x doc shapes, pairs, classes with members and inner classes) through the transcription of documentation_types.py on the writer model and checks C07_TitleModuleEntries, C07_ContentInsideOwnDirective, C07_EntriesDisjoint, IndentExact, OptionsFirst; each page is produced for real from CMake source, compared character for character with the specification's lines, and parsed by docutils: no error-level message, title/module/entries as siblings, doc text and members nested in their own entry only; the repository's sample pages are parsed the same way.",
            "doc bodies from a menu of valid reST shapes; docutils with stub directives stands for Sphinx", "4 C07"),
    "C08": ("spec/AggOps.tla, Aggregator.tla, MC_C08a/b.tla, TraceAggregator.tla",
            "TLC checks C08_DocStemming / C08_OffRemoves on the design (Dev={}) for every flag combination of the kinds that occur; behaviours from the model of the code as it is (Dev=CurrentDev) are replayed under their flags and under defaults and the doccomment-stemming entries compared; known finding K1 is reported as KNOWN-FINDING only for cases matching its signature and the Impl prediction.",
            "flag lattice covered per configuration (16 + 64 combinations) and by random flags in binding B, not all 1024 per program", "4 C08"),
    "C09": ("spec/AggOps.tla, Aggregator.tla, MC_C09.tla, TraceAggregator.tla",
            "TLC checks C09_Classes (class stack, awaiting slot vs. true nesting) for all class structures up to the bound; replayed behaviours compare py:class/py:method/py:attribute nesting, signatures, fields, notes, bases, inner-class lists; traces validated by TLC.",
            "bounds as in evidence; member strip pattern from {'', '^_p_'}", "4 C09"),
    "C10": ("spec/Values.tla, MC_C10.tla",
            "TLC enumerates set() with 0..n values and option() with/without default over the argument menu and checks type classification, quote stripping and joining against the statement; every command is replayed through the real pipeline at three positions and the data directive's fields and note compared.",
            "values without line breaks; help/default as written; bounded value count", "4 C10"),
    "C11": ("spec/AggOps.tla, Aggregator.tla, MC_C11.tla, TraceAggregator.tla",
            "TLC checks C11_Tests (NAME scan, EXPECTFAIL, add_test signature by position) over argument orders and value coincidences; replayed behaviours compare the function directives carrying CMakeTest/CTest warnings; traces validated by TLC.",
            "keywords in upper case as CMake requires; NAME at most once", "4 C11"),
    "C12": ("spec/Naming.tla, MC_C12.tla",
            "TLC enumerates all run descriptors of the menu (36 000) and checks C12_Names, StartsWithPrefixSep, ExtDropped, Injective on the three-step naming machine; behaviours are replayed through the real cminx.main in a sandbox (cwd, HOME, settings file synthesised) and the first lines, the module directive and the first entry's doc compared with the ideal.",
            "module doccomments at indentation 0; upper-case extensions not judged for dropping; quick tier replays a seeded sample", "4 C12"),
    "C13": ("spec/Walk.tla, MC_Walk.tla, GenRst.tla, MC_GenRst.tla",
            "TLC explores the walk of cminx.document (file system as state, listing order as environment choice, output directory inside or outside the input tree) and checks C13_PagesAreProcessedFiles, C13_OneIndexPerProcessedDir, C13_OnePagePerFile, C13_NoDivergence against the ideal computed from the initial tree; every terminal behaviour is materialised and run through the real cminx.document with the listing orders imposed; compared: the exact set of files under the output directory (or the documented files in stdout mode) and the body of every page with that of the file documented on its own (captured per worker before any directory run), also into an output directory that holds longer pages of an earlier run; trees include linked, hidden, empty, module-documented and multi-dot files; each behaviour is replayed under three listing orders; real walks over random trees are recorded visit by visit and validated by TLC (TraceWalk.tla), which evaluates the C13 predicates on the observed effects; GenRst.tla histories (edits incl. a directory losing its only CMake file, page deletions, a second output directory; C19_TreeIsCurrent, OtherTargetUntouched) are replayed as one process per call and as calls inside ONE process.",
            "tree/pattern menus and bounds as in evidence; colliding output paths (index.cmake) out of scope; string functions on names are inputs", "4 C13"),
    "C14": ("spec/Walk.tla, MC_Walk.tla, GenRst.tla, MC_GenRst.tla",
            "TLC checks C14_ToctreeExact, C14_NoDangling, C14_Reachable, C14_IndexTitle on the specification; replayed behaviours compare title and toctree entries of every generated index.rst with the processed files/sub-directories; closure (no dangling entry, every page listed) is demanded of every run whatever the tree; symbolic links to directories with follow_symlinks on/off (repaired F17, the pre-fix model is the witness); two directory inputs on one command line; recorded walks over random trees are validated by TLC (TraceWalk.tla); GenRst.tla histories (a directory loses / regains its only CMake file between calls) are replayed as calls of main() inside one process and the final tree compared with a fresh run.",
            "as C13; separators from {'.', '::'}", "4 C14"),
    "C15": ("spec/Walk.tla, MC_Walk.tla",
            "TLC checks C15_ProcessedIffNotMatched, C15_NotDescended, C15_ExcludedNotScanned, C15_WholeInputExcluded for every pattern set of the menu and every listing permutation; replayed behaviours compare the documented files with the non-excluded ones and the directories listed (os.walk roots, os.scandir calls) with the excluded set, under three listing orders each; several patterns are split over -e, the -s file and the per-user file; the packaged entry script src/main.py is exercised with glob patterns; in recorded walks over random trees every observed PathSpec.match_file result is compared by TLC with Walk.Match.",
            "gitignore semantics of pathspec trusted; pattern forms: name, name/, *.ext, **/name, **/parent/glob, absolute path, <ancestor>/* (whole input)", "4 C15"),
    "C16": ("spec/Config.tla, MC_C16.tla, TraceConfig.tla",
            "TLC checks C16_Precedence, C16_WrongTypeRejected, C16_ExcludesUnion on the source-stacking machine (Configuration, set_file, set_args, get, all_contents) for every option x every subset of sources, and pairs of options; every behaviour is replayed through the real cminx.main with synthesised YAML sources and the Settings object handed to cminx.document compared field by field, incl. exclude-filter concatenation, output-directory resolution and rejection of wrong-typed values; in the other direction every one of these runs is recorded (a recording subclass in place of cminx.Configuration logs the source list after the constructor, set_file, set_args and the outcome of get) and validated event by event by TLC against the same actions (TraceConfig.tla; a copy with a reversed source list must be rejected).",
            "wrong types only in the effective source; StrSeq leniency and logging section not judged", "4 C16"),
    "C17": ("spec/Runs.tla, MC_Runs.tla, GenRst.tla, MC_GenRst.tla",
            "TLC checks on the main()-loop machine (shared Settings object, deep copy per input, default prefix written into the copy) that page content depends on input and settings only for every run descriptor x command line of the menu; a seeded sample of the behaviours is executed for real, one OS process each (cwd, spelling, location, PYTHONHASHSEED, listing order through os.walk, repeat, companion inputs before/after) and every generated file compared byte for byte with the canonical run of each input alone; page bodies of selected files are also compared with the file documented alone (nothing a process documented earlier may show); runs go through the packaged entry script src/main.py; GenRst.tla histories (settings, sources incl. back-dated ones and the tree's shape change between calls into the same output directory) are replayed as one process per call and as calls inside one process: what an earlier run left on disk or in the interpreter is no input.",
            "colliding output paths (two directory inputs) out of scope; sample sizes in evidence", "4 C17"),
    "C18": ("spec/Walk.tla (effect log), MC_Walk.tla, GenRst.tla, MC_GenRst.tla",
            "TLC checks the effect invariants of the walk specification (C18_NoWritesWithoutOut, C18_NoPrintsWithOut, C18_WritesUnderOut, C18_SortedPerDirectory); each terminal behaviour is run through the real cminx.main with and without -o in fresh sandboxes with complete before/after snapshots (paths and bytes, HOME included) and captured stdout; created/changed/deleted paths are compared with the output directory and stdout with the concatenation of the written pages; GenRst.tla histories with a switch to a second output directory are replayed inside one process: TLC checks OtherTargetUntouched, the harness compares the first directory with its snapshot at the switch and the second with a fresh run.",
            "diagnostics-free inputs; output styles abs/relative/parent/inside-top/inside-sub; four settings variants", "4 C18"),
    "C19": ("spec/Runs.tla (GenArgv), MC_Runs.tla, GenRst.tla, MC_GenRst.tla, cmake -P + recording shim",
            "GenRst.tla: repeated calls on one build tree with edits of sources / the -s file and deleted pages in between, C19_TreeIsCurrent after every call, every history up to the bound executed for real and the final tree compared with a fresh command-line run. TLC checks C19_Argv for every input kind x extra-argument list (incl. arguments with blanks and backslashes); each case runs the real cmake/cminx.cmake under cmake -P with CMINX_EXECUTABLE bound to a shim that logs argv and runs the working-tree CMinx; compared: logged argv vs. the specification's, cmake failing fatally iff CMinx fails, output tree vs. the direct command-line run.",
            "arguments with ';' excluded; script mode stands for configure", "4 C19"),
    "C20": ("spec/RstWriter.tla, MC_C20.tla",
            "TLC checks HeadingFramed, IndentExact, OptionsFirst, OrderPreserved, ClearKeepsHeading and the action property ToTextIsPure on the API-history machine for all histories up to the bound; every history ending in to_text is replayed on the real RSTWriter, each serialisation compared character for character with the specification's Lines(), serialised twice and the document compared before/after; the writer calls of real pipeline runs are replayed by TLC (TraceRstWriter.tla) and the predicted serialisation compared line by line with the real page; section() and doctest() are modelled for conformance.",
            "single-line field values; section/doctest/simple_table not exercised; bounds as in evidence", "4 C20"),
}


def main():
    props = [json.loads(l) for l in open(os.path.join(V, "properties.jsonl"))]
    na_reason = {}
    p = os.path.join(V, "not_applicable.json")
    if os.path.exists(p):
        na_reason = json.load(open(p))
    checks = []
    na = []
    for pr in props:
        pid = pr["id"]
        if pid in CLAIMS:
            eng, text, note, ref = CLAIMS[pid]
            checks.append({
                "property_id": pid,
                "quick_cmd": "bin/check %s --tier quick" % pid,
                "thorough_cmd": "bin/check %s --tier thorough" % pid,
                "evidence_file": "evidence/%s.json" % pid,
                "replay_cmd_template": "bin/check %s --replay {path}" % pid,
                "engine": eng,
                "level_claimed": {"category": "model_checking", "text": text, "design_ref": "DESIGN.md section " + ref},
                "level_note": note,
                "technique": TECH})
        else:
            na.append({"property_id": pid, "reason": na_reason.get(pid, "check not built yet (work in progress; DESIGN.md section 8)")})
    m = {"version": 1,
         "setup_cmd": "true",
         "hooks": {"guard": "CMINX_VERIF",
                   "enable": "no source hooks: recorders are test doubles installed by the harness (DESIGN.md 3.5); CMINX_SRC selects the source tree under test (default /repo/src)",
                   "baseline_off_cmd": "cd /repo && /venv/bin/python -m pytest -ra -q -p no:cacheprovider --timeout=900 --continue-on-collection-errors",
                   "source_commits": [], "add_only": True},
         "engines": [{"name": "TLC 1.8 + Python harness", "path": "bin/check", "serves_properties": sorted(CLAIMS),
                      "kind_free_text": "explicit TLA+ specification (spec/*.tla) model-checked by TLC; conformance by behaviour replay and trace validation"}],
         "checks": checks, "not_applicable": na,
         "notes": "see DESIGN.md; known findings in known_findings.json"}
    json.dump(m, open(os.path.join(V, "MANIFEST.json"), "w"), indent=1)
    print("claimed:", sorted(CLAIMS), "not claimed:", [x["property_id"] for x in na])


if __name__ == "__main__":
    main()
