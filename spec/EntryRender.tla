---------------------------- MODULE EntryRender ----------------------------
(***************************************************************************)
(* documentation_types.py: how each entry kind turns itself into calls of  *)
(* the writer API (one process() method per kind), executed on the         *)
(* RstWriter model.  The page is Documenter.process_docs: the module entry *)
(* first, then the entries in list order.  C07 is stated on the            *)
(* serialisation Lines(0) of the resulting document.                       *)
(*                                                                         *)
(* An entry is a record [k, name, args, doc, ...]; doc is a sequence of    *)
(* text lines [lead, w] (the cleaned doccomment always ends with one empty *)
(* line; an undocumented entry has the single empty line).                 *)
(***************************************************************************)
EXTENDS RstWriter

CONSTANTS Pages      \* set of pages: sequences of entries; a page may begin with a module entry (a file that starts
                     \* with a '@module' doccomment), otherwise the Documenter supplies an empty one

VARIABLES page,     \* the entries being rendered
          todo,     \* writer calls still to make
          hmap      \* symbolic writer handles of the current entry -> node index
evars == <<nodes, title, hist, outs, nread, page, todo, hmap>>

Keys == {"d", "x", "c", "m"}
O(op, h, as, tag, txt) == [op |-> op, h |-> h, as |-> as, tag |-> tag, txt |-> txt]
Dir(h, as, name, arg) == O("directive", h, as, <<name, arg>>, <<>>)
Txt(h, txt) == O("text", h, "", <<>>, txt)
Line(w) == <<[lead |-> 0, w |-> w]>>
Fld(h, n, v) == O("field", h, "", <<n, v>>, <<>>)
Opt(h, n, v) == O("option", h, "", <<n, v>>, <<>>)
Bul(h, items) == O("blist", h, "", items, <<>>)
Flatten2(ss) == LET F[j \in 0..Len(ss)] == IF j = 0 THEN <<>> ELSE F[j-1] \o ss[j] IN F[Len(ss)]

\* ---- one process() per entry kind; `into` is the writer the entry is added to
MethodOps(m, into) ==
  <<Dir(into, "m", "py:method", <<m.name, m.params, m.variadic>>)>>
  \o (IF m.ismacro THEN <<Dir("m", "x", "note", <<"member-macro">>)>> ELSE <<>>)
  \o <<Txt("m", m.doc)>>
  \o Flatten2([j \in 1..(IF Len(m.ptypes) < Len(m.params) THEN Len(m.ptypes) ELSE Len(m.params)) |->
                <<Fld("m", <<"param", m.params[j]>>, ""), Fld("m", <<"type", m.params[j]>>, m.ptypes[j])>>])
AttrOps(a, into) ==
  <<Dir(into, "m", "py:attribute", <<a.name>>)>>
  \o (IF a.hasdef THEN <<Opt("m", "value", a.default)>> ELSE <<>>)
  \o <<Txt("m", a.doc)>>
EntryOps(e) ==
  CASE e.k = "module" -> <<Dir("root", "d", "module", <<e.name>>)>> \o (IF e.hasdoc THEN <<Txt("d", e.doc)>> ELSE <<>>)
    [] e.k = "function" -> <<Dir("root", "d", "function", <<e.name, e.args>>), Txt("d", e.doc)>>
    [] e.k = "macro" -> <<Dir("root", "d", "function", <<e.name, e.args>>), Dir("d", "x", "note", <<"macro">>), Txt("d", e.doc)>>
    [] e.k = "variable" -> <<Dir("root", "d", "data", <<e.name>>), Txt("d", e.doc), Fld("d", <<"Default value">>, e.value), Fld("d", <<"type">>, e.vtype)>>
    [] e.k = "option" -> <<Dir("root", "d", "data", <<e.name>>), Dir("d", "x", "note", <<>>), Txt("x", <<[lead |-> 0, w |-> ""], [lead |-> 0, w |-> "option-note-1"], [lead |-> 0, w |-> "option-note-2"], [lead |-> 0, w |-> "option-note-3"], [lead |-> 0, w |-> ""]>>),
                           Txt("d", e.doc), Fld("d", <<"Help text">>, e.help), Fld("d", <<"Default value">>, e.value), Fld("d", <<"type">>, "bool")>>
    [] e.k \in {"generic", "ctest", "test", "section"} ->
         <<Dir("root", "d", "function", <<e.name, e.args>>), Dir("d", "x", "warning", <<e.k>>), Txt("d", e.doc)>>
    [] e.k = "class" ->
         <<Dir("root", "c", "py:class", <<e.name>>)>>
         \o (IF Len(e.bases) > 0 THEN <<Txt("c", <<[lead |-> 0, w |-> <<"Bases", e.bases>>], [lead |-> 0, w |-> ""]>>)>> ELSE <<>>)
         \o <<Txt("c", e.doc)>>
         \o (IF Len(e.ctors) > 0 THEN <<Txt("c", Line("**Additional Constructors**"))>> \o Flatten2([j \in 1..Len(e.ctors) |-> MethodOps(e.ctors[j], "c")]) ELSE <<>>)
         \o (IF Len(e.members) > 0 THEN <<Txt("c", Line("**Methods**"))>> \o Flatten2([j \in 1..Len(e.members) |-> MethodOps(e.members[j], "c")]) ELSE <<>>)
         \o (IF Len(e.attrs) > 0 THEN <<Txt("c", Line("**Attributes**"))>> \o Flatten2([j \in 1..Len(e.attrs) |-> AttrOps(e.attrs[j], "c")]) ELSE <<>>)
         \o (IF Len(e.inner) > 0 THEN <<Txt("c", Line("**Inner classes**")), Bul("c", e.inner)>> ELSE <<>>)
PageOps(p) == Flatten2([j \in 1..Len(p) |-> EntryOps(p[j])])

ModuleEntry == [k |-> "module", name |-> "MODNAME", hasdoc |-> FALSE, doc |-> <<>>]
HasModule(p) == Len(p) > 0 /\ p[1].k = "module"
Entries(p) == IF HasModule(p) THEN Tail(p) ELSE p
EInit == /\ nodes = <<>> /\ outs = <<>> /\ nread = 0 /\ title = [id |-> "TITLE", len |-> 5] /\ hist = <<>>
         /\ page \in Pages /\ todo = PageOps(IF HasModule(page) THEN page ELSE <<ModuleEntry>> \o page) /\ hmap = [k \in Keys |-> 0]

\* one writer call
Call ==
  /\ todo # <<>>
  /\ LET o == Head(todo)
         h == IF o.h = "root" THEN 0 ELSE hmap[o.h]
         n == Len(nodes) + 1
     IN /\ nodes' = CASE o.op = "directive" -> Append(nodes, [k |-> "dir", par |-> h, ind |-> Indent(h), opts |-> <<>>, tag |-> o.tag])
                      [] o.op = "text" -> Append(nodes, [k |-> "para", par |-> h, ind |-> Indent(h), txt |-> o.txt, tag |-> <<>>])
                      [] o.op = "field" -> Append(nodes, [k |-> "field", par |-> h, ind |-> Indent(h), tag |-> o.tag])
                      [] o.op = "blist" -> Append(nodes, [k |-> "blist", par |-> h, ind |-> Indent(h), items |-> o.tag, tag |-> <<>>])
                      [] o.op = "option" -> [nodes EXCEPT ![h].opts = Append(@, o.tag)]
        /\ hmap' = IF o.op = "directive" THEN [hmap EXCEPT ![o.as] = n] ELSE hmap
  /\ todo' = Tail(todo)
  /\ UNCHANGED <<title, hist, outs, nread, page>>
ENext == Call
ESpec == EInit /\ [][ENext]_evars

\* ---------------------------------------------------------------- C07
Rendered == todo = <<>>
TopDirs == SeqOfSet({n \in 1..Len(nodes) : nodes[n].k = "dir" /\ nodes[n].par = 0})
\* one title, then one module directive, then the entries as top-level siblings
C07_TitleModuleEntries ==
  Rendered => /\ SubSeq(Lines(0), 1, 4) = HeadingLines
              /\ Len(TopDirs) = Len(Entries(page)) + 1
              /\ nodes[TopDirs[1]].tag[1] = "module"
              /\ \A j \in 2..Len(TopDirs) : nodes[TopDirs[j]].tag[1] # "module"
              /\ Children(0) = {TopDirs[j] : j \in 1..Len(TopDirs)}       \* nothing but directives at the top level
\* every line an entry contributes besides its own marker line is indented deeper than that marker
C07_ContentInsideOwnDirective ==
  Rendered => \A n \in 1..Len(nodes) : nodes[n].k = "dir" =>
     LET L == DirLines(n) IN \A j \in 3..Len(L) : L[j] = Blank \/ L[j].sp >= L[2].sp + 3
\* the serialisation of the page is the concatenation of the top-level directives: nothing of one entry
\* lies inside another's span
C07_EntriesDisjoint ==
  Rendered => Lines(0) = HeadingLines \o Flatten([j \in 1..Len(TopDirs) |-> DirLines(TopDirs[j]) \o <<Blank>>])
EEmit == Rendered => PrintT(<<"BEH", ToJson([page |-> page, nodes |-> nodes, lines |-> Lines(0)])>>)
=============================================================================
