------------------------------- MODULE MC_Walk -------------------------------
EXTENDS Walk
\* names with the results of the library string functions (see Walk.tla)
N(n, lc, ci, le, stem, rk) == [n |-> n, lc |-> lc, ci |-> ci, le |-> le, stem |-> stem, rk |-> rk]
X == N("x.cmake", TRUE, TRUE, TRUE, "x", 8)
Z == N("z.cmake", TRUE, TRUE, TRUE, "z", 10)
Y == N("Y.CMAKE", FALSE, TRUE, TRUE, "Y", 1)
DE == N("d.e-f.cmake", TRUE, TRUE, TRUE, "d.e-f", 5)
T == N("n.txt", FALSE, FALSE, FALSE, "n", 6)
B == N("cmake", FALSE, FALSE, TRUE, "", 4)
da == N("a", FALSE, FALSE, FALSE, "", 2)
db == N("b", FALSE, FALSE, FALSE, "", 3)
dout == N("out", FALSE, FALSE, FALSE, "", 7)
dl == N("lnk", FALSE, FALSE, FALSE, "", 6)                 \* a symbolic link to a directory outside the input tree
MCLinkNames == {"lnk"}
ddot == N("v1.", FALSE, FALSE, FALSE, "", 9)               \* a directory whose name ends in a dot (also the default separator)
dab == N("ab", FALSE, FALSE, FALSE, "", 2)                 \* sibling of "a" whose name begins like it
L1 == N("l1.cmake", TRUE, TRUE, TRUE, "l1", 6)             \* written with a Latin-1 byte: not UTF-8
XY == N("x-y.cmake", TRUE, TRUE, TRUE, "x-y", 7)             \* sorts before x.cmake ('-' < '.')
HD == N(".h.cmake", TRUE, TRUE, TRUE, ".h", 0)                \* a hidden file: a CMake file like any other
ED == N("e~.cmake", TRUE, TRUE, TRUE, "e~", 5)                   \* "e~" stands for 'e' + combining acute (the harness substitutes it: TLC's ToJson mangles characters above U+00FF): a name that is not NFC
XD == N("x.d.cmake", TRUE, TRUE, TRUE, "x.d", 9)             \* agrees with x.cmake up to the first dot; only the last extension goes
doutold == N("out-old", FALSE, FALSE, FALSE, "", 7)      \* a sibling whose name merely begins like the output directory's

\* trees: Mk(files, children) where children maps a directory name to a subtree
Leaf(files) == (<<>> :> [dirs |-> {}, files |-> files])
Under(d, t) == [p \in {<<d>> \o q : q \in DOMAIN t} |-> t[Tail(p)]]
RECURSIVE MergeAll(_)
MergeAll(S) == IF S = {} THEN <<>> ELSE LET x == CHOOSE x \in S : TRUE IN x @@ MergeAll(S \ {x})
Mk(files, ch) == (<<>> :> [dirs |-> DOMAIN ch, files |-> files]) @@ MergeAll({Under(d, ch[d]) : d \in DOMAIN ch})
NoCh == [d \in {} |-> <<>>]

LeafFiles == {{}, {X}, {T}, {X, Y}, {X, Z}, {DE, B}, {Y}, {HD}}
Leaves == {Leaf(f) : f \in LeafFiles}
\* one level below the input directory: a directory that may itself have sub-directories a / b
Mids == Leaves \cup {Mk(f, (db :> l)) : f \in {{}, {X}, {T}}, l \in {Leaf({X}), Leaf({}), Leaf({Y, X})}}
              \cup {Mk({X}, (da :> Leaf({Z})) @@ (db :> Leaf({X})))}
RootFiles == {{X}, {X, Z, T}, {X, Y, B}, {X, XY}, {X, XD}, {X, ED}}
MCTrees == {Mk({X}, (dl :> Leaf({X, Z})) @@ (da :> Leaf({X}))), Mk({X}, (da :> Mk({X}, (dl :> Mk({X}, (db :> Leaf({X}))))))), Mk({X}, (dl :> Leaf({T})))}
           \cup {Mk(f, NoCh) : f \in RootFiles}
           \cup {Mk(f, (da :> m)) : f \in RootFiles, m \in Mids}
           \cup {Mk(f, (da :> m) @@ (db :> l)) : f \in {{X}, {X, Z, T}}, m \in Mids, l \in {Leaf({X}), Leaf({T}), Leaf({Z, Y})}}
SmallTrees == {Mk(f, NoCh) : f \in RootFiles}
           \cup {Mk({X}, (doutold :> Leaf({Z})) @@ (da :> Mk({X}, (doutold :> Leaf({Z})))))}
           \cup {Mk({X, T}, (da :> Leaf({Y})) @@ (db :> Leaf({X})))}
           \cup {Mk({X, L1}, (da :> Leaf({X})))}
           \cup {Mk({X, XD}, (da :> Leaf({DE, B})))}
           \cup {Mk({X, ED}, (da :> Leaf({ED})))}
           \cup {Mk({X}, (ddot :> Mk({X}, (da :> Leaf({X})))))}                    \* a name that Unicode normalisation would change
           \cup {Mk({X}, (da :> Mk({HD}, (db :> Leaf({X})))))}
           \* linked directories: next to a real one, and below one; with CMake files and without
           \cup {Mk({X}, (dl :> Leaf({X, Z})) @@ (da :> Leaf({X}))), Mk({X}, (da :> Mk({X}, (dl :> Mk({X}, (db :> Leaf({X}))))))), Mk({X}, (dl :> Leaf({T})))}       \* a directory whose only CMake file is hidden, with a sub-directory                \* names with several dots, at the top and below
           \cup {Mk({X}, (dout :> Leaf({T})) @@ (db :> Leaf({X})) @@ (da :> Leaf({Z})))}     \* the output directory exists already
           \cup {Mk({X, XY}, (da :> Leaf({X})) @@ (dab :> Mk({Z}, (db :> Leaf({X})))))}
           \cup {Mk({X, Z, T}, (da :> m) @@ (db :> l)) : m \in {Leaf({X}), Leaf({T}), Mk({X}, (db :> Leaf({X}))), Mk({}, (db :> Leaf({X})))},
                                                           l \in {Leaf({X}), Leaf({Z}), Leaf({Z, Y})}}

P(txt, comp, dironly) == [txt |-> txt, comp |-> comp, dironly |-> dironly, abs |-> <<FALSE, <<>>>>, parent |-> ""]
Pabs(txt, path) == [txt |-> txt, comp |-> {}, dironly |-> FALSE, abs |-> <<TRUE, path>>, parent |-> ""]
Pin(txt, parent, comp) == [txt |-> txt, comp |-> comp, dironly |-> FALSE, abs |-> <<FALSE, <<>>>>, parent |-> parent]
\* the whole input is excluded: by its own absolute path, and by '<ancestor>/*' (everything below that ancestor)
WholeInput == { {Pabs("@", <<>>)}, {Pabs("@/", <<>>)}, {Pabs("**/%P/*", <<>>)} }      \* "@/": the input directory as a directory-only pattern
MCPatternSets == WholeInput \cup { {}, {Pin("**/b/*.cmake", "b", {"x.cmake", "z.cmake", "x-y.cmake", "d.e-f.cmake", "l1.cmake", "x.d.cmake", ".h.cmake", "e~.cmake"})}, {Pin("**/a/b", "a", {"b"})}, {P("x.cmake/", {"x.cmake"}, TRUE), P("b/", {"b"}, TRUE)}, {P("*.cmake/", {"x.cmake", "z.cmake", "x-y.cmake", "d.e-f.cmake", "l1.cmake", "x.d.cmake", ".h.cmake", "e~.cmake"}, TRUE)}, {P("a/", {"a"}, TRUE)}, {P("a/", {"a"}, TRUE), P("b", {"b"}, FALSE)}, {P("x.cmake", {"x.cmake"}, FALSE)},
                   {P("x.cmake", {"x.cmake"}, FALSE), P("z.cmake", {"z.cmake"}, FALSE)}, {P("*.CMAKE", {"Y.CMAKE"}, FALSE)},
                   {P("**/b", {"b"}, FALSE)}, {Pabs("@/a/x.cmake", <<da, X>>)}, {P("*.cmake", {"x.cmake", "z.cmake", "x-y.cmake", "d.e-f.cmake", "l1.cmake", "x.d.cmake", ".h.cmake", "e~.cmake"}, FALSE), P("n.txt", {"n.txt"}, FALSE)},
                   {P("b/", {"b"}, TRUE), P("x.cmake", {"x.cmake"}, FALSE)} }
SmallPatternSets == WholeInput \cup { {Pabs("@/a/x.cmake", <<da, X>>)}, {}, {P("*.CMAKE", {"Y.CMAKE"}, FALSE)}, {Pin("**/b/*.cmake", "b", {"x.cmake", "z.cmake", "x-y.cmake", "d.e-f.cmake", "l1.cmake", "x.d.cmake", ".h.cmake", "e~.cmake"})}, {P("x.cmake/", {"x.cmake"}, TRUE), P("b/", {"b"}, TRUE)}, {P("z.cmake", {"z.cmake"}, FALSE)}, {P("a/", {"a"}, TRUE), P("b", {"b"}, FALSE)}, {P("x.cmake", {"x.cmake"}, FALSE), P("z.cmake", {"z.cmake"}, FALSE)},
                      {P("*.cmake", {"x.cmake", "z.cmake", "x-y.cmake", "d.e-f.cmake", "l1.cmake", "x.d.cmake", ".h.cmake", "e~.cmake"}, FALSE)} }
MCOutSub == [top |-> <<dout>>, sub |-> <<da, dout>>]
NoDev == {}
CurrentDev == {}
BeforeF17 == {"D_LinkedDirsListed"}
BothB == {TRUE, FALSE}
Seps == {".", "::"}
SepColon == {"::"}
OutAll == {"none", "outside", "top", "sub"}
OutFile == {"outside", "top", "sub"}
=============================================================================
