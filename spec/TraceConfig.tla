----------------------------- MODULE TraceConfig -----------------------------
(***************************************************************************)
(* Binding B for Config.tla: what cminx.main() really did to confuse's      *)
(* source list, recorded by harness/confh.py (a recording subclass of       *)
(* confuse.Configuration put in place of cminx.Configuration), is replayed  *)
(* against the actions of Config.  One event per action:                    *)
(*   LoadDefaultsAndUser / SetFile / SetArgs  with the source list AFTER    *)
(*   the call (each source projected to "cli" "sfile" "user" "defaults"),   *)
(*   Validate with the outcome of settings.get(template) and, per focus     *)
(*   option, the set of sources whose value equals the one found in the     *)
(*   Settings object handed to document() (TLC picks none: Validate is      *)
(*   deterministic, the candidates only have to contain its choice).        *)
(* The verdict is total: a trace the actions cannot explain ends in "REJ"   *)
(* with the event and the model's state next to it, not in a deadlock.      *)
(* One TLC run validates a batch; TInit picks the trace.                    *)
(***************************************************************************)
EXTENDS MC_C16, IOUtils

NoDevT == {}
Traces == JsonDeserialize(IOEnv.TRACE_FILE).traces

VARIABLES tid, l, verdict
tvars == <<tid, l, verdict>>
Tr == Traces[tid]

TInit ==
  /\ tid \in 1..Len(Traces) /\ l = 1 /\ verdict = "run"
  /\ asg = Tr.asg /\ rtc = Tr.rtc
  /\ pc = "defaults" /\ stack = <<>> /\ result = [status |-> "", eff |-> <<>>]

ActionAt(p) == CASE p = "defaults" -> "LoadDefaultsAndUser" [] p = "sfile" -> "SetFile" [] p = "args" -> "SetArgs"
                 [] p = "validate" -> "Validate" [] OTHER -> "none"
SameSeq(a, b) == Len(a) = Len(b) /\ \A j \in 1..Len(a) : a[j] = b[j]
InSeq(x, s) == \E j \in 1..Len(s) : s[j] = x

\* the recorded event is explained by the action the model takes from here
Explains(e, p) ==
  /\ e.ev = ActionAt(p)
  /\ (e.ev # "Validate" => SameSeq(stack', e.stack))
  /\ (e.ev = "Validate" =>
        /\ result'.status = e.status
        /\ (e.status = "ok" => \A n \in DOMAIN asg : InSeq(result'.eff[n], e.cands[n])))

TStep ==
  /\ verdict = "run" /\ l <= Len(Tr.events) /\ pc # "done"
  /\ Next
  /\ verdict' = IF Explains(Tr.events[l], pc) THEN "run" ELSE "rej"
  /\ l' = l + 1 /\ UNCHANGED tid

\* more events than the model has steps
TExtra ==
  /\ verdict = "run" /\ l <= Len(Tr.events) /\ pc = "done"
  /\ verdict' = "rej" /\ l' = l + 1 /\ UNCHANGED <<tid, vars>>

Report(tag) ==
  PrintT(<<tag, ToJson([tid |-> tid, id |-> Tr.id, events |-> Len(Tr.events), consumed |-> l - 1, pc |-> pc, stack |-> stack,
                        model_status |-> result.status,
                        event |-> IF l - 1 >= 1 /\ l - 1 <= Len(Tr.events) THEN Tr.events[l - 1] ELSE [ev |-> "none"],
                        precedence |-> (pc = "done" /\ result.status = "ok" => \A n \in DOMAIN asg : result.eff[n] = IdealSource(n)),
                        rejected_as_stated |-> (pc = "done" => (result.status = "rejected") = IdealRejected),
                        excludes |-> (pc = "done" /\ "input.exclude_filters" \in DOMAIN asg => ImplExcludeSources = IdealExcludeSources)])>>)

TFinish ==
  /\ \/ verdict = "rej" /\ Report("REJ")
     \/ verdict = "run" /\ l > Len(Tr.events) /\ Report(IF pc = "done" THEN "END" ELSE "REJ")
  /\ verdict' = "done" /\ UNCHANGED <<tid, l, vars>>

TNext == TStep \/ TExtra \/ TFinish
=============================================================================
