------------------------------- MODULE Values -------------------------------
(***************************************************************************)
(* C10: what a set() / option() command turns into - process_set and       *)
(* process_option at the level of argument texts (sequences of character   *)
(* class symbols as in CMakeLex), and VariableDocumentation /              *)
(* OptionDocumentation.process at the level of fields.                     *)
(***************************************************************************)
EXTENDS Integers, Sequences, FiniteSets, TLC, Json

CONSTANTS Dev, ArgMenu, MaxValues, Kinds

VARIABLES kind,   \* "set" | "option"
          vals,   \* the arguments after the name: sequence of [form, t]
          doc     \* documented?
vars == <<kind, vals, doc>>

Last(s) == s[Len(s)]
\* ---- Impl
\* value[0] == '"' -> drop it; value[-1] == '"' -> drop it (D_UnquoteByChars), or: strip a quoted argument's quotes
ImplUnquote(v) ==
  IF "D_UnquoteByChars" \in Dev
  THEN LET v1 == IF v.t # <<>> /\ v.t[1] = "\"" THEN Tail(v.t) ELSE v.t
       IN IF v1 # <<>> /\ Last(v1) = "\"" THEN SubSeq(v1, 1, Len(v1) - 1) ELSE v1
  ELSE IF Len(v.t) >= 2 /\ v.t[1] = "\"" /\ Last(v.t) = "\"" THEN SubSeq(v.t, 2, Len(v.t) - 1) ELSE v.t
ImplSet == IF Len(vals) > 1 THEN [type |-> "list", value |-> [j \in 1..Len(vals) |-> vals[j].t], joined |-> TRUE]
           ELSE IF Len(vals) = 1 THEN [type |-> "str", value |-> <<ImplUnquote(vals[1])>>, joined |-> FALSE]
           ELSE [type |-> "UNSET", value |-> <<>>, joined |-> FALSE]
\* option(name help [default]): arity 2..3, default "OFF"
ImplOption == IF Len(vals) \in {1, 2}
              THEN [ok |-> TRUE, help |-> vals[1].t, hasdef |-> Len(vals) = 2, default |-> IF Len(vals) = 2 THEN vals[2].t ELSE <<"O", "F", "F">>, type |-> "bool"]
              ELSE [ok |-> FALSE, help |-> <<>>, hasdef |-> FALSE, default |-> <<>>, type |-> ""]
\* ---- Req (from the statement)
ReqUnquote(v) == IF v.form = "quoted" THEN SubSeq(v.t, 2, Len(v.t) - 1) ELSE v.t
ReqSet == IF Len(vals) > 1 THEN [type |-> "list", value |-> [j \in 1..Len(vals) |-> vals[j].t], joined |-> TRUE]
          ELSE IF Len(vals) = 1 THEN [type |-> "str", value |-> <<ReqUnquote(vals[1])>>, joined |-> FALSE]
          ELSE [type |-> "UNSET", value |-> <<>>, joined |-> FALSE]
ReqOption == [ok |-> TRUE, help |-> vals[1].t, hasdef |-> Len(vals) = 2, default |-> IF Len(vals) = 2 THEN vals[2].t ELSE <<"O", "F", "F">>, type |-> "bool"]

Init == /\ kind \in Kinds /\ doc \in BOOLEAN
        /\ \E n \in 0..MaxValues : vals \in [1..n -> ArgMenu]
        /\ (kind = "option" => Len(vals) \in {1, 2})      \* domain: option() with its help text and an optional default
        /\ (kind = "set" => doc)                          \* set() is only shown when documented
Next == UNCHANGED vars
Spec == Init /\ [][Next]_vars
C10_SetEntry == kind = "set" => ImplSet = ReqSet
C10_OptionEntry == kind = "option" => ImplOption = ReqOption
Emit == PrintT(<<"BEH", ToJson([kind |-> kind, doc |-> doc, vals |-> vals,
                                ideal |-> IF kind = "set" THEN ReqSet ELSE ReqOption,
                                impl |-> IF kind = "set" THEN ImplSet ELSE ImplOption])>>)
=============================================================================
