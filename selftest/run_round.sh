#!/bin/bash
# usage: run_round.sh <prefix> [parallel]   e.g. run_round.sh r4_ 3
# Runs every seeded change whose directory name starts with <prefix> against the quick check of its property
# (selftest/run_seeded.sh, scratch copies, evidence redirected) and appends one line per change to selftest/matrix.txt.
cd /verif
prefix=$1; par=${2:-3}
one() {
  d=$1; id=$(basename $d); pid=$(echo $id | grep -oE 'C[0-9]{2}')
  kind=break; case $id in refactor*) kind=refactor;; esac
  log=$(selftest/run_seeded.sh $d $pid 2>&1)
  r=$(echo "$log" | tail -1 | grep -oE "violations=[0-9]+ known=[0-9]+")
  t=$(echo "$log" | grep -oE "tests with change: .*" | grep -oE "[0-9]+ passed|[0-9]+ failed" | tr '\n' ' ')
  dm=$(echo "$log" | grep -oE "demo (with|without) change: exit [0-9]+" | grep -oE "(with|without) change: exit [0-9]+" | tr '\n' ';')
  echo "$id $kind check=$pid $r   [$t| $dm]"
}
export -f one
ls -d seeded/${prefix}*/ | xargs -P $par -I{} bash -c 'one {}' >> ${MATRIX_OUT:-selftest/matrix.txt}
