"""Binding B for the walk: record real cminx.document() runs on random trees; TLC validates them (TraceWalk.tla)."""
import contextlib
import fnmatch
import io
import json
import os
import random
import subprocess
import tempfile
from concurrent.futures import ProcessPoolExecutor

import lib
import walkh

FILE_POOL = ["x.cmake", ".h.cmake", "x.d.cmake", "x-y.cmake", "x+z.cmake", "y.cmake", "Z.CMAKE", "w.CMake", "n.txt", "cmake", "d.e-f.cmake", "README", "v1.2.cmake", "k.cmake.in"]
DIR_POOL = ["a", "ab", "b", "c", "sub", "sub2", "x.d", "out-old", "outer"]
PATTERNS = [("a", "a", False), ("b/", "b", True), ("*.CMAKE", "*.CMAKE", False), ("**/c", "c", False), ("y.cmake", "y.cmake", False),
            ("x.cmake", "x.cmake", False), ("*.cmake", "*.cmake", False), ("sub/", "sub", True), ("n.txt", "n.txt", False), ("x.d", "x.d", False),
            ("y.cmake/", "y.cmake", True), ("*.cmake/", "*.cmake", True), ("o*/", "o*", True),
            ("**/b/*.cmake", "*.cmake", "in:b"), ("**/sub/x*", "x*", "in:sub")]


def gen_tree(rng, depth=0, path=()):
    nodes = []
    files = rng.sample(FILE_POOL, rng.randint(0, 4))
    dirs = rng.sample(DIR_POOL, rng.randint(0, 3 if depth < 2 else (1 if depth < 4 else 0)))
    nodes.append({"path": list(path), "dirs": dirs, "files": files})
    for d in dirs:
        nodes += gen_tree(rng, depth + 1, path + (d,))
    return nodes


def rec(name, rank):
    return {"n": name, "lc": name.endswith(".cmake"), "ci": name.lower().endswith(".cmake"),
            "le": name.split(".")[-1].lower() == "cmake", "stem": ".".join(name.split(".")[:-1]), "rk": rank.get(name, 99)}


def record_one(seed, sandbox):
    import cminx
    import pathspec
    from cminx.config import Settings, InputSettings, OutputSettings, RSTSettings
    rng = random.Random(seed)
    tree = gen_tree(rng)
    if not any(f.endswith(".cmake") for f in tree[0]["files"]):
        tree[0]["files"].append("x.cmake") if "x.cmake" not in tree[0]["files"] else None
    inp = os.path.join(sandbox, "in")
    os.makedirs(inp)
    walkh.materialise(tree, inp)
    recursive, auto = rng.random() < 0.7, rng.random() < 0.5
    sep = rng.choice([".", "::"])
    okind = rng.choice(["none", "outside", "top", "sub"])
    opath = {"top": ["out"], "sub": ["a", "out"]}.get(okind, [])
    outdir = {"none": None, "outside": os.path.join(sandbox, "out")}.get(okind, os.path.join(inp, *opath))
    chosen = rng.sample(PATTERNS, rng.randint(0, 3))
    pats_txt = [p[0] for p in chosen]
    if rng.random() < 0.15:
        cand = [n for n in tree if n["files"]]
        n = rng.choice(cand)
        f = rng.choice(n["files"])
        chosen = chosen + [("@abs", n["path"] + [f], None)]
        pats_txt.append(os.path.join(inp, *n["path"], f))
    settings = Settings(input=InputSettings(recursive=recursive, exclude_filters=pats_txt, auto_exclude_directories_without_cmake=auto),
                        output=OutputSettings(directory=outdir), rst=RSTSettings(module_path_separator=sep))
    order = rng.choice(["sorted", "reversed", "shuffled"])
    events, matches, cur = [], [], {}
    real_walk, real_dsf = os.walk, cminx.document_single_file
    real_match = pathspec.PathSpec.match_file

    def relparts(p):
        r = os.path.relpath(p, inp)
        return [] if r == "." else r.split(os.sep)

    def walk(top, topdown=True, onerror=None, followlinks=False):
        for root, dirs, files in real_walk(top, topdown, onerror, followlinks):
            if len(relparts(root)) > 9:
                raise RuntimeError("walk diverges")
            for lst in (dirs, files):
                lst.sort(reverse=(order == "reversed"))
                if order == "shuffled":
                    random.Random(seed + len(root)).shuffle(lst)
            ev = {"dir": relparts(root), "ldirs": list(dirs), "lfiles": list(files), "docs": [], "dirs_obj": dirs}
            events.append(ev)
            yield root, dirs, files

    def dsf(file, root, s):
        events[-1]["docs"].append(os.path.basename(file))
        return real_dsf(file, root, s)

    def match_file(self, file, *a, **k):
        res = real_match(self, file, *a, **k)
        f = str(file)
        if f.startswith(inp + os.sep) or f == inp:
            matches.append({"path": relparts(f.rstrip(os.sep)), "isdir": f.endswith(os.sep), "result": bool(res)})
        return res
    import logging
    logging.disable(logging.CRITICAL)
    exc = None
    os.walk, cminx.document_single_file = walk, dsf
    pathspec.PathSpec.match_file = match_file
    try:
        with contextlib.redirect_stdout(io.StringIO()), contextlib.redirect_stderr(io.StringIO()):
            cminx.document(inp, settings)
    except BaseException as e:
        exc = "%s: %s" % (type(e).__name__, str(e)[:100])
    finally:
        os.walk, cminx.document_single_file = real_walk, real_dsf
        pathspec.PathSpec.match_file = real_match
    # names and ranks
    names = set()
    for n in tree:
        names.update(n["dirs"])
        names.update(n["files"])
        names.update(n["path"])
    for ev in events:
        names.update(ev["ldirs"])
        names.update(ev["lfiles"])
    names.update(opath)
    rank = {n: i + 1 for i, n in enumerate(sorted(names))}
    R = lambda n: rec(n, rank)
    evs = []
    for ev in events:
        rel = ev["dir"]
        post = {"sub": list(ev["dirs_obj"]), "docs": ev["docs"], "proceed": False, "toc_dirs": [], "toc_files": [], "title": ""}
        ipath = os.path.join(outdir, *rel, "index.rst") if outdir else None
        # proceed = the directory got its index / its pages (the `continue` of auto-exclusion was not taken)
        has_cmake = any(f.endswith(".cmake") for f in ev["lfiles"] if not any(m["result"] and m["path"] == rel + [f] for m in matches))
        post["proceed"] = (not auto) or has_cmake
        if ipath and os.path.exists(ipath) and post["proceed"]:
            ix = walkh.read_index(open(ipath, encoding="utf-8").read())
            ents = ix["entries"]
            post["toc_dirs"] = [e[:-len("/index.rst")] for e in ents if e.endswith("/index.rst")]
            post["toc_files"] = [e for e in ents if not e.endswith("/index.rst")]
            want_top, want_sub = "in", "in" + sep + "/".join(rel)
            post["title"] = "prefix" if (not rel and ix["title"] == want_top) else ("prefix+sep+rel" if rel and ix["title"] == want_sub else "other:" + str(ix["title"]))
        evs.append({"dir": [R(x) for x in rel], "ldirs": [R(x) for x in ev["ldirs"]], "lfiles": [R(x) for x in ev["lfiles"]], "post": post})
    pats = []
    for p in chosen:
        if p[0] == "@abs":
            pats.append({"txt": "@abs", "comp": [], "dironly": False, "abs": [True, [R(x) for x in p[1]]], "parent": ""})
        elif isinstance(p[2], str):
            pats.append({"txt": p[0], "comp": sorted(n for n in names if fnmatch.fnmatchcase(n, p[1])), "dironly": False, "abs": [False, []],
                         "parent": p[2][3:]})
        else:
            pats.append({"txt": p[0], "comp": sorted(n for n in names if fnmatch.fnmatchcase(n, p[1])), "dironly": p[2], "abs": [False, []], "parent": ""})
    trace = {"id": "walk-%d" % seed, "tree": [{"path": [R(x) for x in n["path"]], "dirs": [R(x) for x in n["dirs"]], "files": [R(x) for x in n["files"]]} for n in tree],
             "cfg": {"pats": pats, "recursive": recursive, "auto": auto, "sep": sep, "out": {"kind": okind, "path": [R(x) for x in opath]}},
             "events": evs, "matches": [{"path": [R(x) for x in m["path"]], "isdir": m["isdir"], "result": m["result"]} for m in matches]}
    human = {"tree": tree, "patterns": pats_txt, "recursive": recursive, "auto": auto, "out": okind, "order": order}
    return trace, exc, human


def _chunk(args):
    seeds, base = args
    out = []
    for s in seeds:
        sb = tempfile.mkdtemp(prefix="wt_", dir=base)
        try:
            out.append(record_one(s, sb))
        finally:
            subprocess.run(["rm", "-rf", sb])
    return out


def _init(src):
    lib.CMINX_SRC = src
    lib.use_repo_sources()


def run(run, pid, seed, n):
    base = tempfile.mkdtemp(prefix="verif_wtrace_", dir="/dev/shm" if os.path.isdir("/dev/shm") else None)
    seeds = [seed * 100000 + i for i in range(n)]
    try:
        with ProcessPoolExecutor(max_workers=lib.NCPU, initializer=_init, initargs=(lib.CMINX_SRC,)) as ex:
            parts = list(ex.map(_chunk, [(seeds[i::lib.NCPU], base) for i in range(lib.NCPU)]))
    finally:
        subprocess.run(["rm", "-rf", base])
    recs = [r for p in parts for r in p]
    traces, humans = [], {}
    for tr, exc, human in recs:
        humans[tr["id"]] = human
        if exc is not None:
            run.violation({"trace": tr["id"], "case": human, "features": {"random_tree": True}}, "run completes", exc,
                          "cminx.document raised on a random tree")
            continue
        traces.append(tr)
    if not traces:
        return
    tmp = tempfile.mkdtemp(prefix="verif_wtrace_json_")
    path = os.path.join(tmp, "batch.json")
    with open(path, "w") as fh:
        json.dump({"traces": traces}, fh)
    try:
        res = lib.run_tlc("TraceWalk", "CONSTANT Dev <- NoDev\nCONSTANT Trees = {}\nCONSTANT PatternSets = {}\nCONSTANT OutKinds = {}\n"
                                       "CONSTANT OutSub = {}\nCONSTANT RecChoices = {}\nCONSTANT AutoChoices = {}\nCONSTANT SepChoices = {}\n"
                                       "CONSTANT LinkNames = {}\nCONSTANT MaxWalkDepth = 12\nINIT TInit\nNEXT TNext\n",
                          env={"TRACE_FILE": path}, tags=("END", "REJ"), coverage=False)
    finally:
        subprocess.run(["rm", "-rf", tmp])
    ends = {e["id"]: e for e in res.lines.get("END", [])}
    if len(ends) != len(traces):
        raise lib.MachineryError("walk trace validation lost traces: %d END lines for %d traces" % (len(ends), len(traces)))
    run.states += res.distinct
    run.transitions += res.generated
    run.tlc_runs.append({"config": "TraceWalk", "distinct_states": res.distinct, "states_generated": res.generated,
                         "wall_s": round(res.wall, 1), "traces": len(traces)})
    st = run.notes.setdefault("walk_traces", {"ok": 0, "out": 0, "viol": 0, "rejected_events": 0, "match_disagreements": 0})
    rej = {}
    for r in res.lines.get("REJ", []):
        rej.setdefault(r["id"], []).append(r)
    for tr in traces:
        e = ends[tr["id"]]
        run.traces += 1
        run.count("walktrace:" + tr["id"])
        v = e[pid]
        if pid == "C14" and not e["closed"]:
            v = "viol"       # closure of the toctrees is demanded of every run
        st[v] += 1
        if e["rejs"] or not e["stack_empty"]:
            st["rejected_events"] += max(1, e["rejs"])
            run.drifted({"walk_trace": tr["id"], "case": humans[tr["id"]], "rejections": rej.get(tr["id"], [])[:1], "stack_empty": e["stack_empty"]})
        if not e["match_agree"]:
            st["match_disagreements"] += 1
            run.drifted({"walk_trace": tr["id"], "pathspec_reading": "an observed match_file result differs from Walk.Match", "case": humans[tr["id"]]})
        if v == "viol":
            run.violation({"trace": tr["id"], "case": humans[tr["id"]], "features": {"random_tree": True}, "obs_equals_impl_model": e["rejs"] == 0},
                          "predicate %s of spec/TraceWalk.tla on the observed effects" % pid, e,
                          "recorded walk violates %s (evaluated by TLC on the observed effects)" % pid)
