------------------------------- MODULE MC_C09 -------------------------------
EXTENDS Aggregator, AggAlphabet
\* class structures: bases, attributes with/without default, members with 0-2 types (incl. the
\* variadic args), constructors, implementing functions/macros with 1-4 parameters (member strip
\* pattern applies to some), bodies with further commands
Cmds == <<
  C("cpp_class", <<"@">>), C("cpp_class", <<"@", "Base1", "Base2">>), C("cpp_end_class", <<>>),
  C("cpp_attr", <<"C", "@">>), C("cpp_attr", <<"C", "@", "42">>),
  C("cpp_member", <<"@", "C">>), C("cpp_member", <<"dupm", "C", "int">>), C("cpp_member", <<"@", "C", "int", "args">>),
  Trig(C("cpp_member", <<"@", "C", "int", "str">>)),      \* its doccomment (if any) contains the kwargs trigger string: no effect on members
  C("cpp_constructor", <<"@", "C", "int">>),
  C("function", <<"${@}", "_p_self">>), C("function", <<"${@}", "self", "_p_a", "a">>),      \* after the strip pattern both parameters are called "a": paired by position all the same
  C("macro", <<"${@}", "me", "a">>),        \* the instance argument is the second one, whatever it is called
  C("endfunction", <<>>), C("endmacro", <<>>),
  C("other", <<"hi">>),
  C("cmake_parse_arguments", <<"x", "\"\"", "\"\"", "\"\"">>)      \* in a member's implementation: no effect on the member
>>
Pre == <<>>
MCPats == [f |-> FALSE, m |-> FALSE, x |-> TRUE]
ASSUME PrintT(<<"PATS", ToJson(MCPats)>>)
NoDev == {}
CurrentDev == {}
Both == {TRUE, FALSE}
OnlyAllOn == {AllOn}
=============================================================================
