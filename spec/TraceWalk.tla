------------------------------ MODULE TraceWalk ------------------------------
(***************************************************************************)
(* Binding B for the walk: executions of the real cminx.document() on      *)
(* random trees (deeper and with more names than the menus of MC_Walk),    *)
(* recorded visit by visit through wrapped os.walk / document_single_file  *)
(* / PathSpec.match_file (harness/walktrace.py), are validated against the *)
(* operators of Walk.tla:                                                  *)
(*   - the directory visited next is the head of the model's stack,        *)
(*   - VisitResult on the observed listing gives the observed pruned       *)
(*     sub-directories, toctree and documented files,                      *)
(*   - every observed match_file(path) result equals Match (the spec's     *)
(*     reading of gitignore semantics),                                    *)
(* and the C13/C14/C15 predicates are evaluated on the OBSERVED effects    *)
(* against the Req operators over the initial tree.                        *)
(***************************************************************************)
EXTENDS Walk, IOUtils
NoDev == {}

Batch == JsonDeserialize(IOEnv.TRACE_FILE)
Traces == Batch.traces

VARIABLES tid, l, rejs
tvars == <<tid, l, rejs>>
Tr == Traces[tid]

\* the initial tree: function from directory paths to [dirs, files]
TreeOf(t) == [p \in {n.path : n \in ToSet(t.tree)} |-> LET n == CHOOSE n \in ToSet(t.tree) : n.path = p IN [dirs |-> ToSet(n.dirs), files |-> ToSet(n.files)]]
PatsOf(t) == {[txt |-> p.txt, comp |-> ToSet(p.comp), dironly |-> p.dironly, abs |-> p.abs, parent |-> p.parent] : p \in ToSet(t.cfg.pats)}
CfgOf(t) == [pats |-> PatsOf(t), recursive |-> t.cfg.recursive, auto |-> t.cfg.auto, sep |-> t.cfg.sep, follow |-> FALSE,
             out |-> [kind |-> t.cfg.out.kind, inside |-> t.cfg.out.kind \in {"top", "sub"}, path |-> t.cfg.out.path]]

TInit == /\ tid \in 1..Len(Traces) /\ l = 1 /\ rejs = 0
         /\ tree0 = TreeOf(Traces[tid]) /\ cfg = CfgOf(Traces[tid]) /\ fs = TreeOf(Traces[tid])
         /\ pc = "walk" /\ stack = <<<<>>>> /\ visited = <<>> /\ scanned = {} /\ effects = <<>> /\ outcome = "" /\ hist = <<>>

Ev == Tr.events[l]
\* one recorded os.walk iteration
TVisit ==
  /\ l <= Len(Tr.events)
  /\ LET e == Ev
         D == e.dir
         r == VisitResult(fs, cfg, D, e.ldirs, e.lfiles)
         hasOut == cfg.out.kind # "none"
         okHead == stack # <<>> /\ Head(stack) = D
         okSub == Names(r.sub) = e.post.sub
         okProceed == r.proceed = e.post.proceed
         okToc == ~r.proceed \/ ~hasOut \/ (r.index.toc_dirs = e.post.toc_dirs /\ r.index.toc_files = e.post.toc_files)
         okDocs == ~r.proceed \/ Names(r.docs) = e.post.docs
         ok == okHead /\ okSub /\ okProceed /\ okToc /\ okDocs
         \* continue from the OBSERVED pruned list so that the rest of the trace is still checked
         subObs == SelectSeq(e.ldirs, LAMBDA x : x.n \in ToSet(e.post.sub))
         subOrd == [j \in 1..Len(e.post.sub) |-> CHOOSE x \in ToSet(e.ldirs) : x.n = e.post.sub[j]]
         docsObs == [j \in 1..Len(e.post.docs) |-> CHOOSE x \in ToSet(e.lfiles) : x.n = e.post.docs[j]]
         fs1 == IF e.post.proceed /\ cfg.out.inside
                THEN LET g == Mkdirs(fs, OutRel(cfg, D))
                         g1 == AddFile(g, OutRel(cfg, D), IndexRst)
                         G[j \in 0..Len(docsObs)] == IF j = 0 THEN g1 ELSE AddFile(G[j-1], OutRel(cfg, D), RstName(docsObs[j].stem))
                     IN G[Len(docsObs)]
                ELSE fs
         eff == IF ~e.post.proceed THEN <<>>
                ELSE (IF hasOut THEN <<[e |-> "index", dir |-> D, toc_dirs |-> e.post.toc_dirs, toc_files |-> e.post.toc_files, title |-> e.post.title]>> ELSE <<>>)
                     \o [j \in 1..Len(docsObs) |-> [e |-> IF hasOut THEN "page" ELSE "print", dir |-> D, file |-> docsObs[j].n, stem |-> docsObs[j].stem]]
         stop == e.post.proceed /\ ~cfg.recursive
     IN /\ rejs' = IF ok THEN rejs ELSE rejs + 1
        /\ (~ok /\ rejs < 2 => PrintT(<<"REJ", ToJson([tid |-> tid, id |-> Tr.id, l |-> l, dir |-> Names(D),
                 head |-> okHead, sub |-> <<Names(r.sub), e.post.sub>>, proceed |-> <<r.proceed, e.post.proceed>>,
                 toc |-> <<r.index.toc_dirs, r.index.toc_files, e.post.toc_dirs, e.post.toc_files>>, docs |-> <<Names(r.docs), e.post.docs>>])>>))
        /\ visited' = Append(visited, D)
        /\ scanned' = scanned \cup r.scanned
        /\ fs' = fs1
        /\ effects' = effects \o eff
        /\ stack' = IF stop THEN <<>> ELSE [j \in 1..Len(subOrd) |-> Append(D, subOrd[j])] \o (IF stack = <<>> THEN <<>> ELSE Tail(stack))
  /\ l' = l + 1
  /\ UNCHANGED <<tid, tree0, cfg, pc, outcome, hist>>

\* end of trace: the model must have nothing left to visit; verdicts on the observed effects
Verdict(okDom, P) == IF ~okDom THEN "out" ELSE IF P THEN "ok" ELSE "viol"
MatchAgree == \A j \in 1..Len(Tr.matches) : Match(cfg.pats, Tr.matches[j].path, Tr.matches[j].isdir) = Tr.matches[j].result
TFinish ==
  /\ l = Len(Tr.events) + 1 /\ pc = "walk"
  /\ pc' = "done" /\ outcome' = "ok"
  /\ LET dom == InDomain(tree0, cfg) /\ ~Match(cfg.pats, <<>>, TRUE)
         hasOut == cfg.out.kind # "none"
         c13 == /\ PageFiles = IdealPageFiles
                /\ Len(Eff("page")) + Len(Eff("print")) = Cardinality(PageFiles)
                /\ (hasOut => IndexDirs = ProcDirs(tree0, cfg) /\ Len(Eff("index")) = Cardinality(IndexDirs))
         c14 == hasOut =>
                  /\ \A D \in IndexDirs : LET ix == IndexOf(D) IN
                        /\ ToSet(ix.toc_files) = {f.stem : f \in ProcFiles(tree0, cfg, D)} /\ Len(ix.toc_files) = Cardinality(ProcFiles(tree0, cfg, D))
                        /\ ToSet(ix.toc_dirs) = (IF cfg.recursive THEN {s.n : s \in ProcSubdirs(tree0, cfg, D)} ELSE {})
                        /\ ix.title = IF D = <<>> THEN "prefix" ELSE "prefix+sep+rel"
         c15 == /\ \A D \in ProcDirs(tree0, cfg) : {x[2] : x \in {y \in PageFiles : y[1] = D}} = {f.n : f \in ProcFiles(tree0, cfg, D)}
                /\ \A j \in 1..Len(visited) : ~Excluded(visited[j])
         closed == hasOut =>
                     /\ \A ix \in SeqRange(Eff("index")) :
                           /\ \A j \in 1..Len(ix.toc_files) : <<ix.dir, ix.toc_files[j]>> \in Pages
                           /\ \A j \in 1..Len(ix.toc_dirs) : \E d \in IndexDirs : Len(d) = Len(ix.dir) + 1 /\ IsPrefix2(ix.dir, d) /\ d[Len(d)].n = ix.toc_dirs[j]
                     /\ \A pg \in Pages : pg[1] \in IndexDirs /\ pg[2] \in ToSet(IndexOf(pg[1]).toc_files)
     IN PrintT(<<"END", ToJson([tid |-> tid, id |-> Tr.id, closed |-> closed, rejs |-> rejs, stack_empty |-> stack = <<>>, matches |-> Len(Tr.matches),
                                match_agree |-> MatchAgree, indom |-> dom,
                                C13 |-> Verdict(dom, c13), C14 |-> Verdict(dom, c14), C15 |-> Verdict(dom, c15)])>>)
  /\ UNCHANGED <<tid, l, rejs, tree0, cfg, fs, stack, visited, scanned, effects, hist>>

TNext == TVisit \/ TFinish
TSpec == TInit /\ [][TNext]_<<vars, tvars>>
=============================================================================
