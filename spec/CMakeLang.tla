------------------------------ MODULE CMakeLang ------------------------------
(***************************************************************************)
(* The language of CMake.g4 over token kinds, described declaratively by   *)
(* the parenthesis depth profile (no machine, no variables).  Shared by    *)
(* CMakeParse.tla (the parser as a step machine must accept exactly this   *)
(* language) and CMakeGen.tla (the fold that groups lexed tokens into      *)
(* commands must succeed exactly on it).                                   *)
(***************************************************************************)
EXTENDS Integers, Sequences, FiniteSets

TokKinds == {"mdoc", "doc", "id", "lp", "rp", "unq", "quo", "brk"}
Single == {"id", "unq", "quo", "brk"}

\* depth profile: D[i] = open parentheses after token i
Profile(t) == LET F[i \in 0..Len(t)] == IF i = 0 THEN 0 ELSE F[i-1] + (IF t[i] = "lp" THEN 1 ELSE IF t[i] = "rp" THEN -1 ELSE 0) IN F
WellFormed(t) ==
  LET D == Profile(t)
      n == Len(t)
  IN /\ \A i \in 1..n : D[i] >= 0
     /\ D[n] = 0
     /\ \A i \in 1..n :
          \* outside parentheses: a Docstring, a command name directly followed by its parenthesis, or the file's first
          \* token being the module docstring; every outermost parenthesis directly follows a command name
          /\ (D[i-1] = 0 /\ t[i] # "lp") => \/ t[i] = "doc"
                                              \/ (t[i] = "id" /\ i < n /\ t[i+1] = "lp")
                                              \/ (t[i] = "mdoc" /\ i = 1)
          /\ (D[i-1] = 0 /\ t[i] = "lp") => i > 1 /\ t[i-1] = "id" /\ D[i-2] = 0
          \* inside parentheses: arguments and parentheses only
          /\ D[i-1] > 0 => t[i] \in Single \cup {"lp", "rp"}

=============================================================================
