------------------------------- MODULE MC_C07 -------------------------------
EXTENDS EntryRender
L(lead, w) == [lead |-> lead, w |-> w]
D0 == <<L(0, "")>>
D1 == <<L(0, "para w"), L(0, "")>>
D2 == <<L(0, "first w"), L(0, ""), L(0, "second w"), L(0, "")>>
Dfield == <<L(0, ":param zz: about zz"), L(0, ":type zz: str"), L(0, "")>>
Dbul == <<L(0, "* item one"), L(0, "* item two"), L(0, "")>>
Dlit == <<L(0, "Example::"), L(0, ""), L(3, "literal(block) w"), L(0, "")>>
Ddir == <<L(0, "intro w"), L(0, ""), L(0, ".. note::"), L(0, ""), L(3, "nested body w"), L(0, "")>>
Dlead == <<L(0, ""), L(0, "late w"), L(0, "")>>
Dnote == <<L(0, ".. note::"), L(0, ""), L(3, "only body w"), L(0, "")>>
Dbib == <<L(0, ":Author: someone w"), L(0, ":Version: 1"), L(0, ""), L(0, "after the fields w"), L(0, "")>>     \* one-word field names first
Docs == {D1, D2, Dfield, Dbib, Dbul, Dlit, Ddir, Dlead, Dnote}
SomeDocs == {D1, Ddir, Dlead}
\* nlate: how many of the class's last members are declared AFTER its inner classes in the source (rendering is the same)
E == [k |-> "", name |-> "", args |-> <<>>, doc |-> D0, value |-> "", vtype |-> "", help |-> "", bases |-> <<>>,
      ctors |-> <<>>, members |-> <<>>, attrs |-> <<>>, inner |-> <<>>, nlate |-> 0, impl |-> ""]
\* impl: this function entry stems from the doccomment on the definition that implements member <impl> of the class before it
\* a '@module' doccomment at the top of the file (unnamed: the name comes from the run)
Mod(d) == [k |-> "module", name |-> "MODNAME", hasdoc |-> TRUE, doc |-> d]
Fn(d) == [E EXCEPT !.k = "function", !.name = "@", !.args = <<"a", "b">>, !.doc = d]
Mc(d) == [E EXCEPT !.k = "macro", !.name = "@", !.args = <<"a">>, !.doc = d]
Var(d) == [E EXCEPT !.k = "variable", !.name = "@", !.value = "v", !.vtype = "str", !.doc = d]
Lst(d) == [E EXCEPT !.k = "variable", !.name = "@", !.value = "v w", !.vtype = "list", !.doc = d]
OptE(d) == [E EXCEPT !.k = "option", !.name = "@", !.help = "\"help text\"", !.value = "ON", !.doc = d]
Gen(d) == [E EXCEPT !.k = "generic", !.name = "message", !.args = <<"x", "y">>, !.doc = d]
Ct(d) == [E EXCEPT !.k = "ctest", !.name = "@", !.args = <<"COMMAND", "prog">>, !.doc = d]
Ts(d) == [E EXCEPT !.k = "test", !.name = "@", !.args = <<>>, !.doc = d]
Sc(d) == [E EXCEPT !.k = "section", !.name = "@", !.args = <<"EXPECTFAIL">>, !.doc = d]
M(name, ptypes, params, ismacro, d) == [name |-> name, ptypes |-> ptypes, params |-> params, variadic |-> \E j \in 1..Len(ptypes) : ptypes[j] = "args", ismacro |-> ismacro, doc |-> d]
At(name, hasdef, d) == [name |-> name, hasdef |-> hasdef, default |-> "42", doc |-> d]
Cl(d, bases, ctors, members, attrs, inner) == [E EXCEPT !.k = "class", !.name = "@", !.doc = d, !.bases = bases, !.ctors = ctors, !.members = members, !.attrs = attrs, !.inner = inner]
Kind9(i, d) == CASE i = 1 -> Fn(d) [] i = 2 -> Mc(d) [] i = 3 -> Var(d) [] i = 4 -> Lst(d) [] i = 5 -> OptE(d) [] i = 6 -> Gen(d) [] i = 7 -> Ct(d) [] i = 8 -> Ts(d) [] i = 9 -> Sc(d)
SinglePages == {<<Kind9(i, d)>> : i \in 1..9, d \in Docs}
UndocPages == {<<Fn(D0)>>, <<Mc(D0)>>, <<OptE(D0)>>, <<Ct(D0)>>, <<Ts(D0)>>, <<Sc(D0)>>, <<Cl(D0, <<>>, <<>>, <<>>, <<>>, <<>>)>>}
PairPages == {<<Kind9(i, d), Kind9(j, d2)>> : i \in {1, 3, 5, 6}, j \in {2, 4, 8}, d \in SomeDocs, d2 \in {D1, Dbul}}
ClassPages ==
  {<<Cl(d, b, <<>>, <<>>, <<>>, <<>>)>> : d \in Docs, b \in {<<>>, <<"Base1", "Base2">>}}
  \cup {<<Cl(d, <<"Base1">>, <<M("ctor", <<"int">>, <<"a">>, FALSE, d2)>>, <<M("m1", <<"int", "args">>, <<"a", "b">>, m, d2), M("m2", <<>>, <<>>, FALSE, D0)>>,
           <<At("at1", TRUE, d2), At("at2", FALSE, D0)>>, <<>>)>> : d \in SomeDocs, d2 \in Docs, m \in BOOLEAN}
  \cup {<<Cl(D1, <<>>, <<>>, <<M("m1", <<"int">>, <<"a", "b">>, FALSE, d)>>, <<>>, <<"n2">>), Cl(d, <<>>, <<>>, <<>>, <<At("at1", TRUE, d)>>, <<>>), Fn(d)>> : d \in Docs}
LongParams == <<"a_rather_long_parameter_name_one", "a_rather_long_parameter_name_two", "a_rather_long_parameter_name_three", "a_rather_long_parameter_name_four">>
LongPages == {<<Cl(d, <<>>, <<>>, <<M("a_method_with_a_long_name", <<"int", "str", "bool", "desc">>, LongParams, FALSE, d)>>, <<>>, <<>>),
               [Fn(d) EXCEPT !.args = LongParams]>> : d \in SomeDocs}
MacroTestPages == {<<[Ts(d) EXCEPT !.value = "macro"], [Sc(d) EXCEPT !.value = "macro"], Fn(D1)>> : d \in SomeDocs}
TwoInnerPages == {<<Cl(d, <<>>, <<>>, <<>>, <<>>, <<"n2", "n3">>), Cl(D0, <<>>, <<>>, <<>>, <<>>, <<>>), Cl(d, <<>>, <<>>, <<>>, <<>>, <<>>), Fn(d)>> : d \in SomeDocs}
\* the module doccomment in every doc shape (a field list first, a directive first, ...), alone and before entries
ModulePages == {<<Mod(d)>> : d \in Docs} \cup {<<Mod(d), Kind9(i, d2)>> : d \in Docs, i \in {1, 3}, d2 \in {D1, Dfield}}
\* members of the outer class declared after an inner class has ended
LateMemberPages == {<<[Cl(d, <<>>, <<>>, <<M("m1", <<"int">>, <<"a">>, FALSE, d), M("m2", <<>>, <<>>, FALSE, d2)>>, <<>>, <<"n2">>) EXCEPT !.nlate = 1],
                      Cl(d2, <<>>, <<>>, <<M("im", <<>>, <<>>, FALSE, D1)>>, <<>>, <<>>), Fn(D1)>> : d \in SomeDocs, d2 \in {D0, D1, Dbul}}
\* a documented member whose implementing function carries a doccomment of its own: an entry of its own after the class
ImplDocPages == {<<Cl(D1, <<>>, <<>>, <<M("m1", <<"int">>, <<"a">>, FALSE, d2)>>, <<>>, <<>>),
                   [Fn(d3) EXCEPT !.name = "\"${m1}\"", !.args = <<"self", "a">>, !.impl = "m1"]>> : d2 \in {D0, D1, Dbul}, d3 \in {D1, Dnote, Dbul, Dfield}}
\* a module without anything to document: the page is the title and the (empty) module directive
EmptyPages == {<<>>}
\* a class derived from a class of the same file whose attribute is documented by a sentence that spans two lines
Dtwo == <<L(0, "a sentence that goes on w"), L(0, "on a second line w."), L(0, "")>>
InheritPages == {<<Cl(D1, <<>>, <<>>, <<>>, <<At("at1", TRUE, Dtwo), At("at2", FALSE, D1)>>, <<>>), Cl(d, <<"n1">>, <<>>, <<>>, <<At("own", FALSE, D1)>>, <<>>), Fn(D1)>> : d \in {D1, Dnote}}
\* a line of base classes longer than any line-length limit, in front of a doc that begins with a directive
LongBases == <<"A_rather_long_base_class_name_1", "A_rather_long_base_class_name_2", "A_rather_long_base_class_name_3", "A_rather_long_base_class_name_4">>
Dnote2 == <<L(0, ".. note::"), L(3, "body right below the marker w"), L(0, "")>>
LongBasesPages == {<<Cl(d, LongBases, <<>>, <<>>, <<>>, <<>>)>> : d \in {Dnote, Dnote2, Ddir, D1}}
AllPages == InheritPages \cup LongBasesPages \cup EmptyPages \cup ImplDocPages \cup ModulePages \cup LateMemberPages \cup LongPages \cup MacroTestPages \cup TwoInnerPages \cup SinglePages \cup UndocPages \cup PairPages \cup ClassPages
=============================================================================
