"""Reader for the reST pages CMinx generates: indentation-based directive tree.

This is the projector of DESIGN.md 3.3: page text -> nodes.  It implements reST's block
structure rule for directives (content = following lines that are blank or indented
deeper than the directive marker; options = field lines directly after the marker line)
and nothing else.  check C07 cross-validates it against docutils.
"""
import re

DIR_RE = re.compile(r"^( *)\.\. ([A-Za-z0-9_:-]+):: ?(.*)$")
FIELD_RE = re.compile(r"^:([^:]+(?:\\:[^:]*)*):(?: (.*)|)$")


class Node:
    def __init__(self, name, arg, indent, lineno):
        self.name, self.arg, self.indent, self.lineno = name, arg, indent, lineno
        self.options = []      # (name, value) lines directly after the marker
        self.items = []        # content in order: ("text", str) | ("field", name, value) | ("dir", Node) | ("blank",)
        self.raw = []          # raw content lines (dedented by the content indent)

    @property
    def children(self):
        return [it[1] for it in self.items if it[0] == "dir"]

    @property
    def fields(self):
        return [(it[1], it[2]) for it in self.items if it[0] == "field"]

    @property
    def text_lines(self):
        return [it[1] for it in self.items if it[0] == "text"]

    def to_json(self):
        return {"dir": self.name, "arg": self.arg, "options": self.options,
                "items": [("dir", it[1].to_json()) if it[0] == "dir" else list(it) for it in self.items]}


def _indent_of(line):
    return len(line) - len(line.lstrip(" "))


def parse_block(lines, base, start_no=0):
    """Parse lines (already known to belong to a block whose content indent is `base`)."""
    items = []
    i = 0
    n = len(lines)
    while i < n:
        line = lines[i]
        if line.strip(" \t") == "":
            items.append(("blank",))
            i += 1
            continue
        ind = _indent_of(line)
        m = DIR_RE.match(line)
        if m and ind == base:
            node = Node(m.group(2), m.group(3), ind, start_no + i)
            i += 1
            # options: field-looking lines immediately following, indented deeper than the marker
            while i < n and lines[i].strip(" \t") != "" and _indent_of(lines[i]) > ind:
                fm = FIELD_RE.match(lines[i].strip(" \t"))
                if fm and not node.items:
                    node.options.append((fm.group(1), fm.group(2) or ""))
                    i += 1
                else:
                    break
            # content: following lines blank or indented deeper than the marker
            j = i
            while j < n and (lines[j].strip(" \t") == "" or _indent_of(lines[j]) > ind):
                j += 1
            content = lines[i:j]
            # trailing blank lines belong to the parent
            while content and content[-1].strip(" \t") == "":
                content.pop()
                j -= 1
            nonblank = [c for c in content if c.strip(" \t")]
            cind = min((_indent_of(c) for c in nonblank), default=ind + 3)
            node.raw = [c[cind:] if c.strip(" \t") else "" for c in content]
            node.cind = cind
            node.items = parse_block(content, cind, start_no + i)
            items.append(("dir", node))
            i = j
            continue
        fm = FIELD_RE.match(line.strip(" \t")) if ind == base else None
        if fm:
            items.append(("field", fm.group(1), fm.group(2) or ""))
        else:
            items.append(("text", line[base:] if ind >= base else line))
        i += 1
    return items


class Page:
    def __init__(self, text):
        self.text = text
        lines = text.split("\n")
        self.lines = lines
        # heading: blank, overline, title, underline
        self.title = None
        self.over = self.under = None
        k = 0
        while k < len(lines) and lines[k].strip() == "":
            k += 1
        if k + 2 < len(lines):
            self.over, self.title, self.under = lines[k], lines[k + 1], lines[k + 2]
            body = lines[k + 3:]
        else:
            body = lines[k:]
        self.items = parse_block(body, 0, k + 3)

    @property
    def nodes(self):
        return [it[1] for it in self.items if it[0] == "dir"]

    @property
    def stray(self):
        """top-level text/field items that are not inside any directive"""
        return [it for it in self.items if it[0] in ("text", "field")]
