------------------------------- MODULE MC_C02b -------------------------------
EXTENDS Aggregator, AggAlphabet
\* classes with attributes, members, constructors, tests with sections and their implementing definitions
Cmds == <<
  C("cpp_class", <<"@">>), C("cpp_end_class", <<>>),
  C("cpp_attr", <<"C", "@", "1">>),
  C("cpp_member", <<"@", "C", "int">>),
  C("cpp_constructor", <<"@", "C">>),
  C("function", <<"${@}", "self", "a">>),
  C("function", <<"@", "self">>),         \* an implementing definition may also be named literally
  C("endfunction", <<>>),
  C("ct_add_test", <<"NAME", "@">>),
  C("ct_add_section", <<"NAME", "@", "EXPECTFAIL">>),
  C("other", <<"hi">>),
  C("set", <<"@">>)
>>
Pre == <<>>
MCPats == [f |-> FALSE, m |-> FALSE, x |-> FALSE]
ASSUME PrintT(<<"PATS", ToJson(MCPats)>>)
NoDev == {}
CurrentDev == {}
Both == {TRUE, FALSE}
OnlyAllOn == {AllOn}
=============================================================================
