------------------------------ MODULE CMakeLex ------------------------------
(***************************************************************************)
(* The lexer ANTLR generates from src/cminx/parser/CMake.g4, as the step    *)
(* machine the runtime executes:                                            *)
(*   - all token rules are simulated in parallel (Brzozowski derivatives    *)
(*     with smart constructors stand for the ATN configuration sets);       *)
(*   - a last-accept register remembers the longest match so far, ties go   *)
(*     to the rule written first in the grammar;                            *)
(*   - a rule containing a non-greedy loop (.*?) stops at its first accept; *)
(*   - end of input is a matchable symbol (only Line_comment consumes it);  *)
(*   - when no rule can continue the token is cut at the register; with an  *)
(*     empty register a lexical error is reported and the characters read   *)
(*     so far, including the offending one, are dropped.                    *)
(* One character (or one cut) per step: LexStep.  The semantics were        *)
(* validated against the real CMakeLexer (DESIGN.md section 6) and are      *)
(* re-validated by binding B on every run of C05.                           *)
(*                                                                         *)
(* Characters are class symbols: "a" any letter but t n r, "t" "n" "r",     *)
(* "M" the word module, "1" a digit, "e" a non-ASCII character, "o" other   *)
(* punctuation, and the characters the grammar names.                       *)
(***************************************************************************)
EXTENDS Integers, Sequences, FiniteSets, TLC

CONSTANT BracketLevels     \* bracket nesting levels ('=' counts) the model distinguishes, e.g. {0, 1, 2}

EOF == "EOF"
Letters == {"a", "t", "n", "r", "M"}
Alphabet == Letters \cup {"1", "_", " ", "\t", "\n", "\r", "(", ")", "#", "\"", "\\", "[", "]", "=", ";", "$", "@", "e", "o"}

\* ---------------------------------------------------------------- regular expressions
Nul == [t |-> "nul"]
Eps == [t |-> "eps"]
Cls(S) == [t |-> "cls", s |-> S]
Not(S) == Cls(Alphabet \ S)          \* a negated set never matches EOF
AnyCh == Cls(Alphabet)
MkSeq(a, b) == IF a.t = "nul" \/ b.t = "nul" THEN Nul ELSE IF a.t = "eps" THEN b ELSE IF b.t = "eps" THEN a ELSE [t |-> "seq", a |-> a, b |-> b]
MkAlt(a, b) == IF a.t = "nul" THEN b ELSE IF b.t = "nul" THEN a ELSE IF a = b THEN a ELSE [t |-> "alt", a |-> a, b |-> b]
Star(a) == [t |-> "star", a |-> a]
Plus(a) == MkSeq(a, Star(a))
Opt(a) == MkAlt(a, Eps)
\* right-nested so that a derivative only looks at the head
Lit(s) == LET F[j \in 1..(Len(s) + 1)] == IF j = Len(s) + 1 THEN Eps ELSE MkSeq(Cls({s[j]}), F[j+1]) IN F[1]
SeqN(rs) == LET F[j \in 1..(Len(rs) + 1)] == IF j = Len(rs) + 1 THEN Eps ELSE MkSeq(rs[j], F[j+1]) IN F[1]
AltN(rs) == LET F[j \in 0..Len(rs)] == IF j = 0 THEN Nul ELSE MkAlt(F[j-1], rs[j]) IN F[Len(rs)]
RECURSIVE Nullable(_)
Nullable(r) == CASE r.t \in {"nul", "cls"} -> FALSE [] r.t \in {"eps", "star"} -> TRUE
                 [] r.t = "seq" -> Nullable(r.a) /\ Nullable(r.b) [] r.t = "alt" -> Nullable(r.a) \/ Nullable(r.b)
RECURSIVE D(_, _)
D(r, c) == CASE r.t \in {"nul", "eps"} -> Nul
             [] r.t = "cls" -> IF c \in r.s THEN Eps ELSE Nul
             [] r.t = "seq" -> MkAlt(MkSeq(D(r.a, c), r.b), IF Nullable(r.a) THEN D(r.b, c) ELSE Nul)
             [] r.t = "alt" -> MkAlt(D(r.a, c), D(r.b, c))
             [] r.t = "star" -> MkSeq(D(r.a, c), r)

\* ---------------------------------------------------------------- CMake.g4, lexer rules in file order
NlR == MkAlt(MkSeq(Cls({"\r"}), Opt(Cls({"\n"}))), Cls({"\n"}))
SpaceR == Plus(Cls({" ", "\t"}))
AlNum == Letters \cup {"1"}
EscapeR == AltN(<<MkSeq(Cls({"\\"}), Not(AlNum \cup {";"})), Lit(<<"\\", "t">>), Lit(<<"\\", "r">>), Lit(<<"\\", "n">>), Lit(<<"\\", ";">>)>>)
UnquotedR == Plus(MkAlt(Not({" ", "\t", "\r", "\n", "(", ")", "#", "\"", "\\"}), EscapeR))
QuotedR == SeqN(<<Cls({"\""}), Star(AltN(<<Not({"\\", "\""}), EscapeR, MkSeq(Cls({"\\"}), NlR)>>)), Cls({"\""})>>)
\* Bracket_arg_nested: '=' nested '=' | '[' .*? ']'  -- an alternation over the levels in BracketLevels
Eqs(n) == [j \in 1..n |-> "="]
BracketBody(n) == SeqN(<<Lit(Eqs(n)), Cls({"["}), Star(AnyCh), Cls({"]"}), Lit(Eqs(n))>>)
LevelSeq == LET F[S \in SUBSET BracketLevels] == IF S = {} THEN <<>> ELSE LET m == CHOOSE x \in S : \A y \in S : x <= y IN <<m>> \o F[S \ {m}]
            IN F[BracketLevels]
BracketNested == AltN([j \in 1..Len(LevelSeq) |-> BracketBody(LevelSeq[j])])
DocStart == Lit(<<"#", "[", "[", "[">>)
DocEnd == Lit(<<"#", "]", "]">>)
LineCommentR ==
  SeqN(<<Cls({"#"}),
         AltN(<<Eps,
                MkSeq(Cls({"["}), Star(Cls({"="}))),
                SeqN(<<Cls({"["}), Star(Cls({"="})), Not({"=", "[", "\r", "\n"}), Star(Not({"\r", "\n"}))>>),
                MkSeq(Not({"[", "\r", "\n"}), Star(Not({"\r", "\n"})))>>),
         MkAlt(NlR, Cls({EOF}))>>)
R(n, r, lazy, skip) == [n |-> n, r |-> r, lazy |-> lazy, skip |-> skip]
ImplRules == <<
  R("(", Cls({"("}), FALSE, FALSE), R(")", Cls({")"}), FALSE, FALSE),
  R("Module_docstring", SeqN(<<DocStart, Opt(SpaceR), Lit(<<"@", "M">>), Opt(MkSeq(SpaceR, UnquotedR)), Star(AnyCh), DocEnd>>), TRUE, FALSE),
  R("Docstring", SeqN(<<DocStart, Opt(SpaceR), Star(AnyCh), DocEnd>>), TRUE, FALSE),
  R("Doccomment_start", DocStart, FALSE, FALSE),
  R("Blockcomment_end", DocEnd, FALSE, FALSE),
  R("Identifier", MkSeq(Cls(Letters \cup {"_"}), Star(Cls(AlNum \cup {"_"}))), FALSE, FALSE),
  R("Unquoted_argument", UnquotedR, FALSE, FALSE),
  R("Escape_sequence", EscapeR, FALSE, FALSE),
  R("Quoted_argument", QuotedR, FALSE, FALSE),
  R("Bracket_argument", MkSeq(Cls({"["}), MkSeq(BracketNested, Cls({"]"}))), TRUE, FALSE),
  R("Bracket_comment", SeqN(<<Cls({"#"}), Cls({"["}), BracketNested, Cls({"]"})>>), TRUE, TRUE),
  R("Line_comment", LineCommentR, FALSE, TRUE),
  R("Newline", Plus(NlR), FALSE, TRUE),
  R("Space", SpaceR, FALSE, TRUE) >>
NRules == Len(ImplRules)
AllLive == [k \in 1..NRules |-> [k |-> k, r |-> ImplRules[k].r]]

\* ---------------------------------------------------------------- the step machine
\* lx == [pos: next character to read, start: first character of the current token,
\*        live: rules still able to continue (Seq of [k, r]), best: <<rule, end position>> (<<0, 0>> = empty register),
\*        toks: tokens emitted so far ([k: rule name, from, to]), errs: error spans ([from, to]), done]
LexInit == [pos |-> 1, start |-> 1, live |-> AllLive, best |-> <<0, 0>>, toks |-> <<>>, errs |-> <<>>, done |-> FALSE]
At(text, p) == IF p <= Len(text) THEN text[p] ELSE EOF

LexStep(lx, text) ==
  LET n == Len(text) IN
  IF lx.done THEN lx
  ELSE IF lx.start > n THEN [lx EXCEPT !.done = TRUE]
  ELSE IF lx.live = <<>> \/ lx.pos > n + 1
  THEN \* no rule can continue (or the input is exhausted): cut at the register
       IF lx.best[1] = 0
       THEN \* lexical error: everything read for this token, the offending character included, is dropped
            LET upto == IF lx.pos - 1 > n THEN n ELSE IF lx.pos - 1 < lx.start THEN lx.start ELSE lx.pos - 1
            IN [lx EXCEPT !.errs = Append(@, [from |-> lx.start, to |-> upto]), !.start = upto + 1, !.pos = upto + 1,
                          !.live = AllLive, !.best = <<0, 0>>]
       ELSE LET k == lx.best[1]
                e == IF lx.best[2] > n THEN n ELSE lx.best[2]        \* a token that matched EOF ends at the last character
            IN [lx EXCEPT !.toks = IF ImplRules[k].skip THEN @ ELSE Append(@, [k |-> ImplRules[k].n, from |-> lx.start, to |-> e]),
                          !.start = e + 1, !.pos = e + 1, !.live = AllLive, !.best = <<0, 0>>]
  ELSE \* read one character: derive every live rule, update the register with the earliest nullable rule,
       \* lazy rules leave once they have accepted
       LET c == At(text, lx.pos)
           der == [j \in 1..Len(lx.live) |-> [k |-> lx.live[j].k, r |-> D(lx.live[j].r, c)]]
           alive == SelectSeq(der, LAMBDA x : x.r.t # "nul")
           accs == {alive[j].k : j \in {j \in 1..Len(alive) : Nullable(alive[j].r)}}
           best == IF accs = {} THEN lx.best ELSE <<CHOOSE k \in accs : \A k2 \in accs : k <= k2, lx.pos>>
           stay == SelectSeq(alive, LAMBDA x : ~(ImplRules[x.k].lazy /\ Nullable(x.r)))
       IN [lx EXCEPT !.pos = @ + 1, !.live = stay, !.best = best]

\* run to completion (for short texts, used by invariants); at most 2 * Len(text) + 4 steps
RECURSIVE LexRun(_, _, _)
LexRun(lx, text, fuel) == IF lx.done \/ fuel = 0 THEN lx ELSE LexRun(LexStep(lx, text), text, fuel - 1)
Lex(text) == LexRun(LexInit, text, 3 * Len(text) + 6)
TokText(text, tk) == SubSeq(text, tk.from, tk.to)
=============================================================================
