#!/venv/bin/python
"""Entry point: check.py <Cxx> [--tier quick|thorough] [--replay file]"""
import argparse
import os
import sys
import traceback

sys.path.insert(0, os.path.dirname(os.path.abspath(__file__)))
import lib  # noqa: E402


def main():
    ap = argparse.ArgumentParser()
    ap.add_argument("pid")
    ap.add_argument("--tier", default=os.environ.get("VERIF_TIER", "quick"))
    ap.add_argument("--replay")
    a = ap.parse_args()
    tier = a.tier        # an explicit --tier wins; VERIF_TIER is only the default
    if tier not in ("quick", "thorough"):
        tier = "quick"
    os.environ["VERIF_TIER"] = tier
    seed = int(os.environ.get("VERIF_SEED", "1") or 1)
    pid = a.pid.upper()
    import shutil
    import tempfile
    scratch = tempfile.mkdtemp(prefix="verif_run_", dir="/dev/shm" if os.path.isdir("/dev/shm") else None)
    os.environ["VERIF_SCRATCH"] = scratch
    try:
        return _main(a, pid, tier, seed)
    finally:
        shutil.rmtree(scratch, ignore_errors=True)


def _main(a, pid, tier, seed):
    try:
        lib.use_repo_sources()
        import props
        fn = props.CHECKS.get(pid)
        if fn is None:
            print("no check for", pid)
            return 2
        run = lib.Run(pid, tier, seed)
        if a.replay:
            return props.replay_file(run, pid, a.replay)
        rule = fn(run)
        return run.finish(rule)
    except lib.MachineryError as e:
        print("MACHINERY-FAILURE %s: %s" % (pid, e))
        return 2
    except Exception:
        traceback.print_exc()
        print("MACHINERY-FAILURE %s: unexpected exception in the harness" % pid)
        return 2


if __name__ == "__main__":
    sys.exit(main())
