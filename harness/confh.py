"""C16: Config.tla behaviours replayed through cminx.main with synthesised sources."""
import json
import os
import random
import subprocess
import tempfile
from concurrent.futures import ProcessPoolExecutor

import lib

BOOL_DEFAULT_FALSE = {"input.recursive", "input.follow_symlinks", "rst.file_extensions_in_titles",
                      "rst.file_extensions_in_modules"}


def short(name):
    return name.split(".")[-1][-12:]


def value(opt, kind, src, variant, defaults):
    if kind == "bool":
        d = defaults[opt]
        if src == "cli":
            return True
        flip = (src == "user") == (variant == 0)
        return (not d) if flip else d
    if kind == "str":
        # two words: a string value must arrive in one piece, whatever it contains
        # (a command-line value may begin with '@' like any other character - and it may be the empty string)
        if src == "cli" and variant == 1 and opt == "rst.prefix":
            return ""
        return ("@" if src == "cli" else "") + "%s_%s w2" % (src, short(opt))
    if kind == "list":
        return [("@" if src == "cli" else "") + "%s_pat1" % src, "%s_pat2" % src]
    if kind == "path":
        return ("@" if src == "cli" else "") + "%s_out" % src
    if kind == "strseq":
        return {"sfile": ["=", "-"], "user": ["~", "^", "+"], "cli": ["*"]}[src]
    raise ValueError(kind)


BAD = {"bool": ["notabool", 3, 0, 0.5, [True]], "str": [[1, 2], 42, True, {"a": 1}], "list": [42], "path": [42, [1]], "strseq": [42]}


def bad_value(kind, k=0):
    """a value of the wrong type for the option kind (several per kind: a number is not a boolean, a list not a string)"""
    return BAD[kind][k % len(BAD[kind])]


def documented_defaults():
    import yaml
    y = yaml.safe_load(open(os.path.join(lib.CMINX_SRC, "cminx", "config_default.yaml")))
    out = {}
    for sec in ("input", "output", "rst"):
        for k, v in (y.get(sec) or {}).items():
            out["%s.%s" % (sec, k)] = v
    return out


TRACE_BOX = [[], None]      # events recorded during the last replay_one, candidate sources per option


def _norm(v):
    return list(v) if isinstance(v, tuple) else v


def per_ok(beh, opt, src):
    return beh["asg"].get(opt, {}).get(src) == "ok"


def recording_configuration(base, events, sfile, userfile):
    """confuse.Configuration as cminx.main uses it, with one event per call that changes or reads the source list
    (the linearisation point in a sequential program is the return of the call; logged on the error path too)"""
    def project(conf):
        out = []
        for s in conf.sources:
            fn = getattr(s, "filename", None)
            if getattr(s, "default", False):
                out.append("defaults")
            elif fn is None:
                out.append("cli")
            elif os.path.realpath(fn) == os.path.realpath(sfile):
                out.append("sfile")
            elif os.path.realpath(fn) == os.path.realpath(userfile):
                out.append("user")
            else:
                out.append("other:" + os.path.basename(fn))
        return out

    class Recording(base):
        def __init__(self, *a, **k):
            super().__init__(*a, **k)
            events.append({"ev": "LoadDefaultsAndUser", "stack": project(self)})

        def set_file(self, *a, **k):
            try:
                return super().set_file(*a, **k)
            finally:
                events.append({"ev": "SetFile", "stack": project(self)})

        def set_args(self, *a, **k):
            try:
                return super().set_args(*a, **k)
            finally:
                events.append({"ev": "SetArgs", "stack": project(self)})

        def get(self, *a, **k):
            ev = {"ev": "Validate", "stack": project(self), "status": "rejected"}
            try:
                r = super().get(*a, **k)
                ev["status"] = "ok"
                return r
            finally:
                events.append(ev)
    return Recording


def replay_one(beh, kinds, sandbox, variant):
    import yaml
    import cminx
    import naming
    defaults = documented_defaults()
    work = os.path.join(sandbox, "work")
    home = os.path.join(sandbox, "home")
    cfgdir = os.path.join(sandbox, "cfgdir")
    userdir = os.path.join(home, ".config", "cminx")
    for d in (work, cfgdir, userdir, os.path.join(work, "in")):
        os.makedirs(d)
    files = {"sfile": {}, "user": {}}
    argv = []
    for opt, per in beh["asg"].items():
        sec, key = opt.split(".")
        for src, st in per.items():
            if st == "unset":
                continue
            v = value(opt, kinds[opt], src, variant, defaults) if st == "ok" else bad_value(kinds[opt], variant + len(opt))
            if src == "cli":
                if opt == "input.recursive":
                    argv += ["-r"]
                elif opt == "rst.prefix":
                    argv += ["-p", v]
                elif opt == "output.directory":
                    argv += ["-o", v]
                elif opt == "input.exclude_filters":
                    for p in v:
                        argv += ["-e", p]
            else:
                files[src].setdefault(sec, {})[key] = v
    if beh["rtc"] != "none":
        files[beh["rtc"]].setdefault("output", {})["relative_to_config"] = True
    files["sfile"].setdefault("logging", {"version": 1})
    spath = os.path.join(cfgdir, "s.yaml")
    with open(spath, "w") as fh:
        yaml.safe_dump(files["sfile"], fh)
    if files["user"]:
        with open(os.path.join(userdir, "config.yaml"), "w") as fh:
            yaml.safe_dump(files["user"], fh)
    # every second case has another directory earlier on the command line, documented for real: the Settings object
    # handed over for "in" must still be what the sources say (nothing the first input did to it may show)
    two = variant == 1
    if two:
        os.makedirs(os.path.join(work, "first"))
        with open(os.path.join(work, "first", "f.cmake"), "w") as fh:
            fh.write("function(f)\nendfunction()\n")
    argv = ["-s", spath] + argv + (["first"] if two else []) + ["in"]
    captured = []
    real = cminx.document
    import copy as _copy

    def spy(f, s):
        captured.append(_copy.deepcopy(s))
        if two and os.path.basename(os.path.normpath(f)) == "first":
            real(f, s)
    cminx.document = spy
    events = []
    real_conf = cminx.Configuration
    cminx.Configuration = recording_configuration(real_conf, events, spath, os.path.join(userdir, "config.yaml"))
    try:
        exc, _ = naming.run_main(argv, work, home)
    finally:
        cminx.document = real
        cminx.Configuration = real_conf
    TRACE_BOX[:] = [events, None]
    exp = {}
    if beh["status"] == "rejected":
        return {"rejected": True}, {"rejected": exc is not None and "Config" in exc, "exc": exc}, argv, files
    if exc or not captured:
        return {"rejected": False}, {"rejected": True, "exc": exc}, argv, files
    s = captured[-1]
    obs = {}
    cands = {}
    for opt, src in beh["ideal"].items():
        sec, key = opt.split(".")
        got = getattr(getattr(s, sec), key)
        if opt == "input.exclude_filters":
            want = []
            for x in beh["excl"]:
                want += value(opt, "list", x, variant, defaults)
            got = list(got)
        elif opt == "output.directory":
            base = {"cwd": work, "dir-of-sfile": cfgdir, "dir-of-user": userdir, "none": None}.get(beh["outbase"], "skip")
            if base == "skip":
                continue
            want = None if src == "none" else os.path.join(base, value(opt, "path", src, variant, defaults))
        elif src in ("defaults", "none"):
            want = defaults.get(opt)
            if isinstance(got, tuple):
                got = list(got)
        else:
            want = value(opt, kinds[opt], src, variant, defaults)
        if isinstance(got, tuple):
            got = list(got)
        exp[opt] = want
        obs[opt] = got
        # binding B: the sources whose value is the one found in the Settings object (TraceConfig.tla: Validate)
        if opt in ("input.exclude_filters", "output.directory"):
            cands[opt] = ["cli", "sfile", "user", "defaults", "none"]
        else:
            cands[opt] = [x for x in ("cli", "sfile", "user") if per_ok(beh, opt, x) and
                          _norm(value(opt, kinds[opt], x, variant, defaults)) == _norm(got)]
            if _norm(defaults.get(opt)) == _norm(got):
                cands[opt] += ["defaults", "none"]
    TRACE_BOX[1] = cands
    return exp, obs, argv, files


def _chunk(args):
    chunk, kinds, base = args
    out = []
    for n, beh in chunk:
        for variant in (0, 1):
            sb = tempfile.mkdtemp(prefix="c16_", dir=base)
            try:
                exp, obs, argv, files = replay_one(beh, kinds, sb, variant)
                if beh["status"] == "rejected":
                    ok = obs["rejected"]
                else:
                    ok = exp == obs
                events, cands = TRACE_BOX
                for e in events:
                    if e["ev"] == "Validate":
                        # no Settings object was seen (the run failed before document()): nothing to hold Validate's choice against
                        e["cands"] = cands or {o: ["cli", "sfile", "user", "defaults", "none"] for o in beh["asg"]}
                out.append((n, variant, ok, exp, obs, argv, files, list(events)))
            finally:
                subprocess.run(["rm", "-rf", sb])
    return out


def _init(src):
    lib.CMINX_SRC = src
    lib.use_repo_sources()


def replay(run, behs, kinds, seed, limit=None):
    behs = [b for b in behs if b["indom"]]
    if limit and len(behs) > limit:
        behs = lib.covering_sample(behs, lambda b: dict({o: json.dumps(v, sort_keys=True) for o, v in b["asg"].items()}, rtc=b["rtc"]), limit, seed)
        run.exhaustive = False
    base = tempfile.mkdtemp(prefix="verif_c16_", dir="/dev/shm" if os.path.isdir("/dev/shm") else None)
    traces = []
    try:
        items = list(enumerate(behs))
        chunks = [(items[i::lib.NCPU * 2], kinds, base) for i in range(lib.NCPU * 2)]
        chunks = [c for c in chunks if c[0]]
        with ProcessPoolExecutor(max_workers=lib.NCPU, initializer=_init, initargs=(lib.CMINX_SRC,)) as ex:
            for part in ex.map(_chunk, chunks):
                for n, variant, ok, exp, obs, argv, files, events in part:
                    beh = behs[n]
                    traces.append({"id": "%d/%d" % (n, variant), "asg": beh["asg"], "rtc": beh["rtc"], "events": events})
                    run.behaviours += 1
                    run.count(json.dumps([beh["asg"], beh["rtc"], variant], sort_keys=True))
                    if not ok:
                        run.violation({"asg": beh["asg"], "rtc": beh["rtc"], "argv": argv[2:], "files": files, "variant": variant,
                                       "features": {"options": sorted(beh["asg"])}},
                                      exp, obs, "the settings handed to cminx.document() are not those the layering rule prescribes")
        if behs:
            run.sample({"asg": behs[0]["asg"], "rtc": behs[0]["rtc"], "ideal_source": behs[0]["ideal"]})
        validate_traces(run, traces, base)
    finally:
        subprocess.run(["rm", "-rf", base])


def validate_traces(run, traces, base):
    """binding B: the recorded calls of main() on confuse's source list against the actions of Config.tla (TraceConfig.tla).
    A trace the actions cannot explain is drift of the specification (the verdict about the property comes from the
    values, above); a corrupted copy must be rejected or the binding does not bite."""
    if not traces:
        return
    import copy
    bad = copy.deepcopy(next((t for t in traces if len(t["events"]) >= 3), traces[0]))
    bad["id"] = "~selftest-corrupted-copy"
    if len(bad["events"]) >= 3:
        bad["events"][2]["stack"] = list(reversed(bad["events"][2]["stack"]))
    else:
        bad["events"] = bad["events"][:-1]
    st = run.notes.setdefault("config_traces", {"validated": 0, "events": 0, "model_disagrees": 0, "corrupted_copy_rejected": False})
    for i in range(0, len(traces), 1500):
        part = traces[i:i + 1500] + ([bad] if i == 0 else [])
        path = os.path.join(base, "conf_batch_%d.json" % i)
        with open(path, "w") as fh:
            json.dump({"traces": part}, fh)
        res = lib.run_tlc("TraceConfig", "CONSTANT Dev <- NoDevT\nCONSTANT Options <- MCOptions\nCONSTANT FocusSets <- Singles\n"
                                         "CONSTANT AllowBad = TRUE\nINIT TInit\nNEXT TNext\n",
                          env={"TRACE_FILE": path}, tags=("END", "REJ"), coverage=False)
        ends, rejs = res.lines.get("END", []), res.lines.get("REJ", [])
        if len(ends) + len(rejs) != len(part):
            raise lib.MachineryError("config trace validation lost traces: %d verdicts for %d traces\n%s"
                                     % (len(ends) + len(rejs), len(part), res.stdout[-1500:]))
        run.states += res.distinct
        run.transitions += res.generated
        run.tlc_runs.append({"config": "TraceConfig", "distinct_states": res.distinct, "states_generated": res.generated,
                             "wall_s": round(res.wall, 1), "traces": len(part)})
        if any(e["id"] == bad["id"] for e in ends):
            raise lib.MachineryError("TraceConfig accepted a trace with a reversed source list: the binding does not bite")
        for e in ends:
            if not (e["precedence"] and e["rejected_as_stated"] and e["excludes"]):
                raise lib.MachineryError("TraceConfig: an accepted trace ends in a state where the model's own invariants fail: %r" % (e,))
        run.traces += len(ends)
        st["validated"] += len(ends)
        st["events"] += sum(e["events"] for e in ends)
        for r in rejs:
            if r["id"] == bad["id"]:
                st["corrupted_copy_rejected"] = True
                continue
            st["model_disagrees"] += 1
            run.drifted({"config_trace": r["id"], "rejection": r})
