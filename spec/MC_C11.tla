------------------------------- MODULE MC_C11 -------------------------------
EXTENDS Aggregator, AggAlphabet
\* tests, sections and CTest tests with NAME at several positions, EXPECTFAIL present/absent, arguments
\* equal to the test's name or containing a keyword as a substring, lower-case look-alikes as values
Cmds == <<
  C("ct_add_test", <<"NAME", "@">>),
  C("ct_add_test", <<"EXPECTFAIL", "NAME", "@">>),
  C("ct_add_test", <<"NAME", "@", "EXPECTFAILX", "expectfail_not">>),
  C("ct_add_section", <<"NAME", "@", "EXPECTFAIL">>),
  C("ct_add_section", <<"x", "NAME", "@">>),
  C("ct_add_section", <<"NAME", "@", "EXPECTFAIL-is-reported", "name.y">>),
  \* more than 100 characters of arguments, blanks inside a quoted one, an escaped semicolon: all shown, as written
  C("add_test", <<"NAME", "@", "COMMAND", "prog", "--alpha-option-number-one", "--beta-option-number-two", "--gamma-option-number-three",
                  "--delta-option-number-four", "\"Unit  tests:   core\"", "-DM=core\\;io">>),
  C("add_test", <<"COMMAND", "prog", "NAME", "@">>),
  C("add_test", <<"NAME", "@", "COMMAND", "@", "--RENAME">>),
  C("add_test", <<"NAME", "@", "COMMAND", "p", "ANAME">>),
  C("function", <<"${@}">>), C("macro", <<"${@}", "first", "second">>),
  C("endfunction", <<>>), C("endmacro", <<>>),
  C("other", <<"hi">>)
>>
Pre == <<>>
MCPats == [f |-> FALSE, m |-> FALSE, x |-> FALSE]
ASSUME PrintT(<<"PATS", ToJson(MCPats)>>)
NoDev == {}
CurrentDev == {}
Both == {TRUE, FALSE}
OnlyAllOn == {AllOn}
=============================================================================
