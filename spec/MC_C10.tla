------------------------------- MODULE MC_C10 -------------------------------
EXTENDS Values
A(form, t) == [form |-> form, t |-> t]
Q == "\""
MCArgs == { A("ident", <<"a">>), A("unquoted", <<"a", "\\", Q>>), A("unquoted", <<"1">>), A("unquoted", <<"a", ";", "a">>),
            A("quoted", <<Q, "a", " ", "a", Q>>), A("quoted", <<Q, Q>>), A("quoted", <<Q, "\\", Q, "a", Q>>),
            A("quoted", <<Q, "a", "\\", Q, Q>>), A("quoted", <<Q, "a", Q>>), A("quoted", <<Q, "\\", Q, Q>>),
            A("varref", <<"$", "o", "a", "o">>), A("bracket", <<"[", "[", "a", "]", "]">>), A("bracket", <<"[", "[", Q, "a", Q, "]", "]">>),
            A("unquoted", <<"\\", Q, "a", "\\", Q>>), A("quoted", <<Q, "e", Q>>),
            A("quoted", <<Q, "a", " ", " ", "\t", "a", Q>>),
            A("quoted", <<Q, "a", "\\", "\\", Q>>), A("quoted", <<Q, "\\", "\\", Q>>),
            A("quoted", <<Q, "$", "$", "a", "/", "a", Q>>), A("unquoted", <<"$", "$", "o", "a", "o">>) }     \* '$$' and '$${a}' stay as written
BothKinds == {"set", "option"}
NoDev == {}
CurrentDev == {}
=============================================================================
