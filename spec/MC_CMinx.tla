------------------------------ MODULE MC_CMinx ------------------------------
EXTENDS CMinx
NoDev == {}
BeforeF2 == {"D_LexErrorsNotRaised", "D_NestedMismatchSwallowed"}
CurrentDev == {}
BothModes == {"inputs", "directory"}
=============================================================================
