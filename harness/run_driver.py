"""Subprocess driver: run cminx.main(argv) from the source tree under test, with an imposed directory-listing order."""
import os
import random
import sys

src = os.environ["VERIF_CMINX_SRC"]
sys.path.insert(0, src)
import warnings  # noqa: E402
warnings.filterwarnings("ignore")
perm = os.environ.get("VERIF_PERM", "sorted")
_real_walk = os.walk


def walk(top, topdown=True, onerror=None, followlinks=False):
    for root, dirs, files in _real_walk(top, topdown, onerror, followlinks):
        for lst in (dirs, files):
            if perm == "sorted":
                lst.sort()
            elif perm == "reversed":
                lst.sort(reverse=True)
            else:
                lst.sort()
                random.Random(len(root)).shuffle(lst)
        yield root, dirs, files


os.walk = walk
import cminx  # noqa: E402
got = os.path.dirname(os.path.dirname(os.path.abspath(cminx.__file__)))
if os.path.realpath(got) != os.path.realpath(src):
    sys.stderr.write("driver: cminx imported from %s, expected %s\n" % (got, src))
    sys.exit(97)
# the packaged entry script (src/main.py: what PyInstaller wraps and cminx_gen_rst() runs) is executed where it
# exists, so that whatever it does to the arguments before cminx.main() is part of what is observed
mainpy = os.path.join(src, "main.py")
args = sys.argv[1:]


def run_main(argv):
    if os.path.isfile(mainpy) and os.environ.get("VERIF_ENTRY", "script") == "script":
        import runpy
        sys.argv = [mainpy] + list(argv)
        runpy.run_path(mainpy, run_name="__main__")
    else:
        cminx.main(argv)


if os.environ.get("VERIF_HISTORY"):
    # a whole history (GenRst.tla, route "inproc") inside this one process: edits of the inputs and calls of the command
    # line interleaved, so that whatever a call leaves behind in the interpreter is still there for the next one
    import json
    import shutil
    for op in json.load(open(os.environ["VERIF_HISTORY"])):
        kind = op[0]
        if kind == "append":
            with open(op[1], "a") as fh:
                fh.write(op[2])
            if op[3] is not None:
                os.utime(op[1], (op[3], op[3]))
        elif kind == "write":
            with open(op[1], "w") as fh:
                fh.write(op[2])
        elif kind == "unlink":
            if os.path.exists(op[1]):
                os.unlink(op[1])
        elif kind == "toggle":
            if os.path.exists(op[1]):
                os.unlink(op[1])
            else:
                os.makedirs(os.path.dirname(op[1]), exist_ok=True)
                with open(op[1], "w") as fh:
                    fh.write(op[2])
        elif kind == "snapshot":
            if os.path.isdir(op[1]):
                shutil.copytree(op[1], op[2], symlinks=True)
        elif kind == "chdir":
            os.chdir(op[1])
        elif kind == "main":
            run_main(op[1])
        else:
            sys.stderr.write("driver: unknown history operation %r\n" % (op,))
            sys.exit(98)
    sys.exit(0)
for _ in range(int(os.environ.get("VERIF_REPEAT", "1"))):
    if os.path.isfile(mainpy) and os.environ.get("VERIF_ENTRY", "script") == "script":
        import runpy
        sys.argv = [mainpy] + list(args)
        runpy.run_path(mainpy, run_name="__main__")
    else:
        cminx.main(args)
