------------------------------ MODULE DocClean ------------------------------
(***************************************************************************)
(* DocumentationAggregator.clean_doc_lines over character sequences        *)
(* (C01, the doccomment half of C04, the @module line of C12).              *)
(*                                                                         *)
(* A doccomment token starts at its '#': the text handed to the function   *)
(* is  "#[[[" first-line-rest NL { indent body-line NL } indent "#]]"      *)
(* so the first line never carries the block's indentation.                *)
(* Characters are one-character strings; "a" stands for any letter, "1"    *)
(* for any digit, "e" for any non-ASCII character (the harness picks       *)
(* members per occurrence).                                                *)
(***************************************************************************)
EXTENDS Integers, Sequences, FiniteSets, TLC, Json

CONSTANTS Dev,
          Indents,   \* set of indentation strings (sequences of " " / "\t")
          Firsts,    \* set of texts following "#[[[" on the opening line
          Bodies,    \* set of bodies: sequences of body texts (each a sequence of characters)
          Leaders    \* subset of {"hash", "none"}: body lines written as "# text" / bare "text"

VARIABLES ind, first, body, leader
vars == <<ind, first, body, leader>>

Strip == {"#", "[", "]"}
\* ---- string helpers on sequences of characters
LStrip(s, S) == LET n == IF \A j \in 1..Len(s) : s[j] \in S THEN Len(s) ELSE (CHOOSE j \in 1..Len(s) : s[j] \notin S /\ \A k \in 1..(j-1) : s[k] \in S) - 1
                IN SubSeq(s, n + 1, Len(s))
RStrip(s, S) == LET n == IF \A j \in 1..Len(s) : s[j] \in S THEN 0 ELSE CHOOSE j \in 1..Len(s) : s[j] \notin S /\ \A k \in (j+1)..Len(s) : s[k] \in S
                IN SubSeq(s, 1, n)
Drop(s, n) == IF n >= Len(s) THEN <<>> ELSE SubSeq(s, n + 1, Len(s))

\* ---- the token text as lines, as the lexer delivers it (first line starts at '#')
BodyLine(I, t, ld) == IF ld = "hash" THEN I \o (IF t = <<>> THEN <<"#">> ELSE <<"#", " ">> \o t) ELSE I \o t
TokenLines(I, f, b, ld) == <<<<"#", "[", "[", "[">> \o f>> \o [j \in 1..Len(b) |-> BodyLine(I, b[j], ld)] \o <<I \o <<"#", "]", "]">>>>

\* ---- Impl: clean_doc_lines(lines) -> lines of the cleaned doc
Clean(lines) ==
  LET last == lines[Len(lines)]
      \* count characters before the first '#' of the LAST line
      nsp == IF \A j \in 1..Len(last) : last[j] # "#" THEN Len(last) ELSE (CHOOSE j \in 1..Len(last) : last[j] = "#" /\ \A k \in 1..(j-1) : last[k] # "#") - 1
      One(j) == LET sliced == IF j = 1 /\ "D_FirstLineSliced" \notin Dev THEN lines[j] ELSE Drop(lines[j], nsp)
                    st == LStrip(sliced, Strip)
                IN IF st # <<>> /\ st[1] = " " THEN Tail(st) ELSE st
      cl == [j \in 1..Len(lines) |-> One(j)]
      cl2 == [cl EXCEPT ![Len(lines)] = RStrip(@, {"#", "]"})]
  IN \* "\n".join(...) and one leading newline dropped: an empty first line disappears
     IF Len(cl2) > 1 /\ cl2[1] = <<>> THEN Tail(cl2) ELSE cl2

Cleaned == Clean(TokenLines(ind, first, body, leader))

\* ---- Req
\* C01: canonical block (nothing after "#[[["): the body texts, line for line, then the one empty line the
\* closing delimiter leaves
Canonical == first = <<>>
LeaderlessOk == leader = "hash" \/ (ind = <<>> /\ \A j \in 1..Len(body) : body[j] # <<>> /\ body[j][1] = "a")
C01_CleanIsIdentity == Canonical /\ LeaderlessOk => Cleaned = body \o <<<<>>>>
\* C04: uniform re-indentation of the block does not change the cleaned text
Reindentable == TRUE   \* every line but the first carries the whole indentation
C04_IndentIrrelevant == Reindentable => Cleaned = Clean(TokenLines(<<>>, first, body, leader))

Init == ind \in Indents /\ first \in Firsts /\ body \in Bodies /\ leader \in Leaders
Next == UNCHANGED vars
Spec == Init /\ [][Next]_vars
Emit == PrintT(<<"BEH", ToJson([ind |-> ind, first |-> first, body |-> body, leader |-> leader, cleaned |-> Cleaned,
                                ideal |-> Clean(TokenLines(<<>>, first, body, leader)),
                                c01 |-> Canonical /\ LeaderlessOk, c04 |-> Reindentable])>>)
=============================================================================
