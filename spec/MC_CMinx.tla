------------------------------ MODULE MC_CMinx ------------------------------
EXTENDS CMinx
NoDev == {}
BeforeF2 == {"D_LexErrorsNotRaised", "D_NestedMismatchSwallowed"}
CurrentDev == {}
BothModes == {"inputs", "directory"}
\* "samename": separate command-line inputs in directories of their own that all have the same base name, so that every
\* one of them is written to the same page <out>/mod.rst (the run itself is the "inputs" machine; what differs is what the
\* harness can observe: only the last page written survives)
AllModes == {"inputs", "directory", "samename"}
=============================================================================
