------------------------------ MODULE MC_GenRst ------------------------------
EXTENDS GenRst
NoDev == {}
Stamp == {"D_StampSkipsRun"}
NoBlind == {}
BlindUpperSettings == {"upper", "settings"}
\* a make-style "page is newer than its source" test sees neither the settings nor a back-dated source
BlindSettingsBackdated == {"settings", "backdated"}
=============================================================================
