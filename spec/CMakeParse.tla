----------------------------- MODULE CMakeParse -----------------------------
(***************************************************************************)
(* The parser layer between CMakeLex (characters -> tokens) and Aggregator *)
(* (listener events -> documentation entries): the token stream of a file   *)
(* is read by the grammar                                                   *)
(*   cmake_file         : documented_module?                                *)
(*                        (documented_command | command_invocation          *)
(*                         | bracket_doccomment)* EOF                       *)
(*   documented_command : bracket_doccomment command_invocation             *)
(*   command_invocation : Identifier '(' (single | compound)* ')'           *)
(*   compound_argument  : '(' (single | compound)* ')'                      *)
(*   single_argument    : Identifier | Unquoted | Bracket | Quoted          *)
(* and the tree walker calls the listener (DocumentationAggregator) once    *)
(* per documented_module, documented_command, command_invocation and        *)
(* bracket_doccomment, in source order.                                     *)
(*                                                                          *)
(* Impl layer: a one-token-lookahead machine (mode, depth) that reads one   *)
(* token per step, the way the generated recursive-descent parser does, and *)
(* logs the listener events.  The first token no alternative expects ends   *)
(* the run with status "error" (the collected syntax error makes            *)
(* Documenter.process raise; the recovery the ANTLR runtime would attempt   *)
(* is irrelevant since F2).                                                 *)
(* Req layer: WellFormed, a declarative description of the same language by *)
(* the parenthesis depth profile, and the event rules of C02 / C05.         *)
(* The token stream is built as the machine goes (any kind may come next),  *)
(* so TLC visits every viable prefix, every way to leave the language and   *)
(* every complete file up to MaxTokens.                                     *)
(***************************************************************************)
EXTENDS CMakeLang, TLC, Json

CONSTANTS MaxTokens,   \* length bound of the token stream
          Dev          \* named deviations of the Impl machine (empty = the current code)


VARIABLES toks,     \* tokens read so far (kinds)
          mode,     \* "start" | "top" | "name" | "args"
          depth,    \* open parentheses of the current command
          pend,     \* position of a Docstring waiting for the next top-level item, or 0
          cur,      \* the command being read: [name, doc, direct, groups, ntok]
          events,   \* listener calls so far
          status    \* "run" | "accept" | "error"
vars == <<toks, mode, depth, pend, cur, events, status>>

NoCmd == [name |-> 0, doc |-> 0, direct |-> <<>>, groups |-> 0, ntok |-> 0]
Init == /\ toks = <<>> /\ mode = "start" /\ depth = 0 /\ pend = 0 /\ cur = NoCmd /\ events = <<>> /\ status = "run"

\* a Docstring that is not followed by a command is reported as dangling when the next item (or EOF) shows up
Flush(ev) == IF pend = 0 THEN ev ELSE Append(ev, [e |-> "dangling", at |-> pend])

Fail == /\ status' = "error" /\ UNCHANGED <<mode, depth, pend, cur, events>>

\* read one token of kind k
Read(k) ==
  /\ status = "run" /\ Len(toks) < MaxTokens
  /\ toks' = Append(toks, k)
  /\ LET p == Len(toks) + 1 IN
     CASE (mode = "start" \/ ("D_ModuleAnywhere" \in Dev /\ mode = "top")) /\ k = "mdoc" ->
            /\ events' = Append(events, [e |-> "module", at |-> p])
            /\ mode' = "top" /\ UNCHANGED <<depth, pend, cur, status>>
       [] mode \in {"start", "top"} /\ k = "doc" ->
            \* a second Docstring: the first one stays alone (bracket_doccomment alternative)
            /\ events' = Flush(events) /\ pend' = p
            /\ mode' = "top" /\ UNCHANGED <<depth, cur, status>>
       [] mode \in {"start", "top"} /\ k = "id" ->
            /\ cur' = [NoCmd EXCEPT !.name = p, !.doc = pend]
            /\ pend' = 0 /\ mode' = "name" /\ UNCHANGED <<depth, events, status>>
       [] mode = "name" /\ k = "lp" ->
            /\ mode' = "args" /\ depth' = 1 /\ UNCHANGED <<pend, cur, events, status>>
       [] mode = "args" /\ k \in Single ->
            /\ cur' = [cur EXCEPT !.direct = IF depth = 1 THEN Append(@, p) ELSE @, !.ntok = @ + 1]
            /\ UNCHANGED <<mode, depth, pend, events, status>>
       [] mode = "args" /\ k = "lp" ->
            /\ cur' = [cur EXCEPT !.groups = IF depth = 1 THEN @ + 1 ELSE @, !.ntok = @ + 1]
            /\ depth' = depth + 1 /\ UNCHANGED <<mode, pend, events, status>>
       [] mode = "args" /\ k = "rp" /\ depth > 1 ->
            /\ cur' = [cur EXCEPT !.ntok = @ + 1]
            /\ depth' = depth - 1 /\ UNCHANGED <<mode, pend, events, status>>
       [] mode = "args" /\ k = "rp" /\ depth = 1 ->
            \* the command is complete: enterDocumented_command (if a Docstring precedes it), then enterCommand_invocation
            /\ events' = (IF cur.doc # 0 THEN Append(events, [e |-> "doccmd", doc |-> cur.doc, name |-> cur.name]) ELSE events)
                           \o <<[e |-> "cmd", name |-> cur.name, documented |-> cur.doc # 0,
                                 direct |-> cur.direct, groups |-> cur.groups, ntok |-> cur.ntok]>>
            /\ depth' = 0 /\ mode' = "top" /\ cur' = NoCmd /\ UNCHANGED <<pend, status>>
       [] OTHER -> Fail

\* end of file
Eof ==
  /\ status = "run"
  /\ IF mode \in {"start", "top"}
     THEN /\ status' = "accept" /\ events' = Flush(events) /\ pend' = 0 /\ UNCHANGED <<mode, depth, cur>>
     ELSE Fail
  /\ UNCHANGED toks

ReadMdoc == Read("mdoc")
ReadDoc == Read("doc")
ReadId == Read("id")
ReadLp == Read("lp")
ReadRp == Read("rp")
ReadUnq == Read("unq")
ReadQuo == Read("quo")
ReadBrk == Read("brk")
Next == ReadMdoc \/ ReadDoc \/ ReadId \/ ReadLp \/ ReadRp \/ ReadUnq \/ ReadQuo \/ ReadBrk \/ Eof
Spec == Init /\ [][Next]_vars

Done == status \in {"accept", "error"}

\* ---------------------------------------------------------------- Req: the language, declaratively (CMakeLang.tla)
\* the parser accepts exactly the language (C05: every valid file is accepted; C06: unbalanced parentheses and stray
\* text are reported)
AcceptsExactlyTheLanguage == Done => (status = "accept" <=> WellFormed(toks))
\* a run that fails, fails at the first token that leaves the language: the prefix before it was viable
FailsAtFirstBadToken == status = "error" /\ Len(toks) > 0 => ~WellFormed(toks)

\* ---------------------------------------------------------------- Req: the listener events
Ev(kind) == SelectSeq(events, LAMBDA x : x.e = kind)
TopIds(t) == LET D == Profile(t) IN {i \in 1..Len(t) : t[i] = "id" /\ D[i-1] = 0}
\* C02 at the parser: one enterCommand_invocation per top-level command, in source order
OneEventPerCommand ==
  status = "accept" =>
     LET c == Ev("cmd") IN
     /\ {c[j].name : j \in 1..Len(c)} = TopIds(toks) /\ Len(c) = Cardinality(TopIds(toks))
     /\ \A j \in 1..(Len(c) - 1) : c[j].name < c[j+1].name
\* a Docstring documents the command that directly follows it, and nothing else; otherwise it is dangling
DocAttachment ==
  status = "accept" =>
     \A i \in 1..Len(toks) : toks[i] = "doc" =>
        IF i < Len(toks) /\ toks[i+1] = "id"
        THEN /\ \E x \in {events[j] : j \in 1..Len(events)} : x.e = "doccmd" /\ x.doc = i /\ x.name = i + 1
             /\ ~\E x \in {events[j] : j \in 1..Len(events)} : x.e = "dangling" /\ x.at = i
        ELSE /\ \E x \in {events[j] : j \in 1..Len(events)} : x.e = "dangling" /\ x.at = i
             /\ ~\E x \in {events[j] : j \in 1..Len(events)} : x.e = "doccmd" /\ x.doc = i
\* enterDocumented_command comes directly before the enterCommand_invocation of the same command
DocumentedThenCommand ==
  \A j \in 1..Len(events) : events[j].e = "doccmd" =>
      j < Len(events) /\ events[j+1].e = "cmd" /\ events[j+1].name = events[j].name /\ events[j+1].documented
\* C05 at the parser: the direct arguments of a command are exactly the argument tokens at depth 1 of its
\* parentheses, in order; nested groups are counted, their contents are not direct arguments
ArgumentBoundaries ==
  status = "accept" =>
     LET D == Profile(toks)
         c == Ev("cmd")
         End(nm) == CHOOSE k \in (nm+1)..Len(toks) : D[k] = 0 /\ \A m \in (nm+1)..(k-1) : D[m] > 0
     IN \A j \in 1..Len(c) :
           LET nm == c[j].name
               inside == (nm + 2)..(End(nm) - 1)
           IN /\ {c[j].direct[k] : k \in 1..Len(c[j].direct)} = {i \in inside : toks[i] \in Single /\ D[i-1] = 1}
              /\ \A k \in 1..(Len(c[j].direct) - 1) : c[j].direct[k] < c[j].direct[k+1]
              /\ c[j].groups = Cardinality({i \in inside : toks[i] = "lp" /\ D[i-1] = 1})
              /\ c[j].ntok = Cardinality(inside)
\* the module docstring is reported once, and only as the first token
ModuleOnlyFirst ==
  status = "accept" => /\ Len(Ev("module")) = (IF Len(toks) > 0 /\ toks[1] = "mdoc" THEN 1 ELSE 0)
                       /\ \A i \in 2..Len(toks) : toks[i] # "mdoc"
\* events come in source order
Pos(x) == IF x.e = "cmd" \/ x.e = "doccmd" THEN x.name ELSE x.at
EventsInSourceOrder == \A j \in 1..(Len(events) - 1) : Pos(events[j]) <= Pos(events[j+1])

Emit == Done => PrintT(<<"BEH", ToJson([toks |-> toks, status |-> status, events |-> events, wf |-> WellFormed(toks)])>>)
=============================================================================
