------------------------------- MODULE MC_C02a -------------------------------
EXTENDS Aggregator, AggAlphabet
\* definitions, variables, options, CTest tests, ordinary commands (plain, with compound
\* arguments, and one literally named generic_command)
Cmds == <<
  C("function", <<"@", "a">>),
  C("function", <<"dup", "a">>),          \* a name that can occur twice (e.g. one definition per if/else branch)
  C("macro", <<"@">>),
  C("endfunction", <<>>), C("endmacro", <<>>),
  C("set", <<"@", "v">>),
  C("option", <<"@", "\"help\"", "ON">>),
  C("add_test", <<"NAME", "@", "COMMAND", "prog">>),
  C("add_test", <<"@", "prog">>),           \* CMake's short form: no NAME keyword
  C("other", <<"hi", "\"a  b\"", "c\\;d">>),       \* arguments are shown as written: blanks inside quotes, escapes
  Compound("other", <<"NOT", "OR", "C">>, <<"(AANDB)">>, <<"NOT", "(A AND B)", "OR", "C">>),
  C("generic_command", <<"x">>),
  C("cmake_parse_arguments", <<"x", "\"\"", "\"\"", "\"\"">>)
>>
Pre == <<>>
MCPats == [f |-> FALSE, m |-> FALSE, x |-> FALSE]
ASSUME PrintT(<<"PATS", ToJson(MCPats)>>)
NoDev == {}
CurrentDev == {}
Both == {TRUE, FALSE}
OnlyAllOn == {AllOn}
=============================================================================
