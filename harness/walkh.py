"""Walk family (C13 C14 C15, effects for C18, naming for C12): Walk.tla behaviours replayed on cminx.document.

A behaviour = initial tree + configuration + the directory listing order chosen at every visit.
The harness materialises the tree in a sandbox, imposes the listing orders by wrapping os.walk,
runs the real cminx.document(), and reads back what was written.
"""
import contextlib
import io
import json
import os
import random
import re
import shutil
import tempfile
from concurrent.futures import ProcessPoolExecutor

import lib
from rstparse import Page

# (the second doc line holds characters some line-splitting functions take for line ends: form feed, U+2028, U+0085)
CMAKE_BODY = "#[[[\n# doc of {name}\n# form\x0cfeed, line\u2028separator, next\x85line\n#]]\nfunction(f_{ident} a)\nendfunction()\n"
# files that are listed early in their directory take keyword arguments: same parameter list as the others, plus **kwargs
CMAKE_BODY_KW = "#[[[\n# doc of {name}\n# form\x0cfeed, line\u2028separator, next\x85line\n#]]\nfunction(f_{ident} a)\n  cmake_parse_arguments(p \"\" \"\" \"\" ${{ARGN}})\nendfunction()\n"
KWARGS_FILES = {"Y.CMAKE", ".h.cmake", "x-y.cmake"}
# a file that begins with a named '@module' doccomment (title and module name come from it)
MODULE_FILES = {"x.d.cmake"}
MODULE_HEAD = "#[[[ @module mod_{ident}\n# about the module\n#]]\n"
SOLO = {}     # per worker process, captured before any directory run: the page body of a file documented on its own


def body_of(text):
    """what a page shows apart from the path-derived title and module name: everything after the module directive line"""
    parts = text.split(".. module::", 1)
    return parts[1].split("\n", 1)[1] if len(parts) == 2 and "\n" in parts[1] else None


def capture_solo():
    import agg
    for kw in (False, True):
        src = (CMAKE_BODY_KW if kw else CMAKE_BODY).format(name="@NAME@", ident="@IDENT@")
        status, text, _, _ = agg.run_real(src, agg.make_settings())
        SOLO[kw] = body_of(text) if status == "ok" else None
    status, text, _, _ = agg.run_real((MODULE_HEAD + CMAKE_BODY).format(name="@NAME@", ident="@IDENT@"), agg.make_settings())
    SOLO["mod"] = body_of(text) if status == "ok" else None
    status, text, _, _ = agg.run_real("# nothing to document here\ninclude(other_module)\n", agg.make_settings())
    SOLO["empty"] = body_of(text) if status == "ok" else None


def rmtree(path):
    import subprocess
    subprocess.run(["rm", "-rf", path], check=False)


# a page left by an earlier run: longer than anything this run writes (a writer that does not truncate leaves its tail)
STALE = "stale page from an earlier run\n" + "stale line of the earlier, longer page\n" * 400


NOTHING_TO_DOCUMENT = {"z.cmake"}


def subst_pat(p, inp):
    """pattern text of the specification -> concrete pattern: '@' is the absolute input directory, '%P' the name of the
    directory two levels above it (so that '**/%P/*' excludes everything below that ancestor, the input included)"""
    return p.replace("@", inp).replace("%P", os.path.basename(os.path.dirname(os.path.dirname(os.path.abspath(inp)))))


def ident(name):
    return "".join(ch if ch.isalnum() else "_" for ch in name)


LINK_NAMES = {"lnk"}     # MC_Walk.MCLinkNames: directories of this name are symbolic links to a directory outside the input tree


def materialise(tree, root):
    for node in sorted(tree, key=lambda n: len(n["path"])):
        d = os.path.join(root, *node["path"])
        if node["path"] and node["path"][-1] in LINK_NAMES and not os.path.lexists(d):
            target = os.path.join(os.path.dirname(os.path.abspath(root)), "linktargets", "_".join(node["path"]))
            os.makedirs(target, exist_ok=True)
            os.makedirs(os.path.dirname(d), exist_ok=True)
            os.symlink(target, d)
        os.makedirs(d, exist_ok=True)
        for f in node["files"]:
            if f == "l1.cmake":
                with open(os.path.join(d, f), "wb") as fh:
                    fh.write(b"# caf\xe9 in Latin-1\nfunction(f_latin)\nendfunction()\n")
                continue
            if f in NOTHING_TO_DOCUMENT:
                # a module that only includes others: its page holds the title and the module directive, nothing else
                with open(os.path.join(d, f), "w") as fh:
                    fh.write("# nothing to document here\ninclude(other_module)\n")
                continue
            with open(os.path.join(d, f), "w", encoding="utf-8", newline="") as fh:
                # the function name identifies the file (by its relative path) in whatever page it ends up in
                fh.write(((MODULE_HEAD if f in MODULE_FILES else "") + (CMAKE_BODY_KW if f in KWARGS_FILES else CMAKE_BODY))
                         .format(name=f, ident=ident("/".join(node["path"] + [f])))
                         if f.lower().endswith("cmake") else "text\n")


def documented_from_pages(tree, texts):
    """which input files were documented, read off the generated text (fallback when the harness's wrapper around
    cminx.document_single_file sees no call, e.g. after the function was renamed or inlined)"""
    out = []
    blob = "\n".join(texts)
    titles = set()
    for t in texts:
        ls = [l for l in t.split("\n") if l.strip()]
        for k in range(1, len(ls) - 1):     # over-/underlined lines (stdout carries several pages)
            if ls[k - 1] == ls[k + 1] and len(set(ls[k - 1])) == 1 and len(ls[k - 1]) == len(ls[k]):
                titles.add(ls[k])
    for node in tree:
        for f in node["files"]:
            rel = "/".join(node["path"] + [f])
            if f in NOTHING_TO_DOCUMENT:
                tail = "/".join(node["path"] + [f[:-len(".cmake")]])
                # the title ends with the relative path (with or without the extension), after the prefix and separator
                if any(re.search(r"(^|[^A-Za-z0-9/])" + re.escape(tail) + r"(\.cmake)?$", t) for t in titles):
                    out.append(rel)
                continue
            if re.search(r"(?<![A-Za-z0-9_])f_%s\(" % re.escape(ident(rel)), blob):
                out.append(rel)
    return out


def snapshot(root):
    out = {}
    for r, ds, fs in os.walk(root):
        for f in fs:
            p = os.path.join(r, f)
            try:
                with open(p, "rb") as fh:
                    out[os.path.relpath(p, root)] = fh.read()
            except OSError:
                out[os.path.relpath(p, root)] = None
        for d in ds:
            out[os.path.relpath(os.path.join(r, d), root) + "/"] = b""
    return out


def read_index(text):
    p = Page(text)
    toc = [n for n in p.nodes if n.name == "toctree"]
    entries = []
    for n in toc:
        entries += [t.strip() for t in n.text_lines if t.strip()]
    return {"title": p.title, "over": p.over, "under": p.under, "n_toctrees": len(toc), "entries": entries,
            "options": [list(o) for n in toc for o in n.options]}


def run_case(beh, sandbox, prefix_arg=None, extra_rst=None, capture_effects=True):
    """Returns the observation dict for one behaviour."""
    import cminx
    from cminx.config import Settings, InputSettings, OutputSettings, RSTSettings
    cfg = beh["cfg"]
    inp = os.path.join(sandbox, "in")
    os.makedirs(inp)
    materialise(beh["tree"], inp)
    kind = cfg["out"]["kind"]
    outdir = None
    if kind == "outside":
        outdir = os.path.join(sandbox, "out")
    elif kind in ("top", "sub"):
        outdir = os.path.join(inp, *cfg["out"]["path"])
    pats = [subst_pat(p, inp) for p in cfg["pats"]]
    settings = Settings(input=InputSettings(recursive=cfg["recursive"], exclude_filters=pats, follow_symlinks=bool(cfg.get("follow")),
                                            auto_exclude_directories_without_cmake=cfg["auto"]),
                        output=OutputSettings(directory=outdir),
                        rst=RSTSettings(module_path_separator=cfg["sep"], prefix=prefix_arg, **(extra_rst or {})))
    listings = {"/".join(l["dir"]): l for l in beh.get("listings", [])}
    os.makedirs(os.path.join(sandbox, "home", ".config", "cminx"), exist_ok=True)
    if kind == "outside" and len(beh["tree"]) % 2 == 0:
        # the output directory holds the (longer) pages of an earlier run: this run's pages replace them completely
        os.makedirs(outdir)
        for f in ("x.rst", "index.rst"):
            with open(os.path.join(outdir, f), "w") as fh:
                fh.write(STALE)
    before = snapshot(sandbox)
    obs = {"walk_roots": [], "unlisted": [], "docs": [], "scandirs": [], "exc": None}
    real_walk, real_scandir, real_dsf = os.walk, os.scandir, cminx.document_single_file

    def order(names, want):
        pos = {n: i for i, n in enumerate(want)}
        return sorted(names, key=lambda n: (pos.get(n, len(want)), n))

    def walk(top, topdown=True, onerror=None, followlinks=False):
        for root, dirs, files in real_walk(top, topdown, onerror, followlinks):
            rel = os.path.relpath(root, inp)
            rel = "" if rel == "." else rel
            if rel.count("/") > 9:
                raise RuntimeError("walk diverges: it keeps descending into directories it has just created")
            obs["walk_roots"].append(rel)
            l = listings.get(rel)
            if l is None or sorted(l["ldirs"]) != sorted(dirs) or sorted(l["lfiles"]) != sorted(files):
                obs["unlisted"].append(rel)
                dirs[:] = sorted(dirs)
                files[:] = sorted(files)
            else:
                dirs[:] = order(dirs, l["ldirs"])
                files[:] = order(files, l["lfiles"])
            yield root, dirs, files

    def scandir(path="."):
        try:
            obs["scandirs"].append(os.path.relpath(path, inp))
        except Exception:
            pass
        return real_scandir(path)

    def dsf(file, root, s):
        obs["docs"].append(os.path.relpath(file, inp))
        return real_dsf(file, root, s)

    stdout = io.StringIO()
    import logging
    logging.disable(logging.CRITICAL)
    os.walk, cminx.document_single_file = walk, dsf
    cminx.os.scandir = scandir
    via_main = kind == "outside" and prefix_arg is None and not extra_rst and (len(beh["tree"]) + len(pats)) % 3 == 0
    obs["via_main"] = via_main
    try:
        if via_main:
            # the real command line with a RELATIVE output directory, from the case's own working directory
            import naming
            import yaml
            os.makedirs(os.path.join(sandbox, "home", ".config", "cminx"), exist_ok=True)
            sfile = os.path.join(sandbox, "s.yaml")
            # several patterns come from several sources (-e, the -s file, the per-user file): all of them apply
            cli_pats, file_pats, user_pats = (pats[:1], pats[1:2], pats[2:]) if len(pats) >= 2 else ([], pats, [])
            with open(sfile, "w") as fh:
                yaml.safe_dump({"input": {"recursive": cfg["recursive"], "auto_exclude_directories_without_cmake": cfg["auto"],
                                          "follow_symlinks": bool(cfg.get("follow")),
                                          "exclude_filters": file_pats}, "rst": {"module_path_separator": cfg["sep"]},
                                "logging": {"version": 1}}, fh)
            if user_pats:
                with open(os.path.join(sandbox, "home", ".config", "cminx", "config.yaml"), "w") as fh:
                    yaml.safe_dump({"input": {"exclude_filters": user_pats}}, fh)
            eargs = []
            for pt in cli_pats:
                eargs += ["-e", pt]
            exc, so = naming.run_main(["-s", sfile, "-o", "out"] + eargs + ["in"], sandbox, os.path.join(sandbox, "home"))
            stdout.write(so)
            if exc:
                obs["exc"] = exc
        else:
            with contextlib.redirect_stdout(stdout), contextlib.redirect_stderr(io.StringIO()):
                cminx.document(inp, settings)
    except BaseException as e:
        obs["exc"] = "%s: %s" % (type(e).__name__, str(e)[:120])
    finally:
        os.walk, cminx.document_single_file = real_walk, real_dsf
        os.scandir = real_scandir
    after = snapshot(sandbox)
    obs["stdout"] = stdout.getvalue()
    obs["docs_wrapper_seen"] = bool(obs["docs"])
    # (the settings file and the home directory of the command-line route are the harness's own)
    created = {p: after[p] for p in after if p not in before and p != "s.yaml" and not (p + "/").startswith("home/")}
    changed = [p for p in before if p in after and before[p] != after[p]]
    deleted = [p for p in before if p not in after]
    obs["changed"], obs["deleted"] = changed, deleted
    obs["created"] = sorted(created)
    if outdir:
        orel = os.path.relpath(outdir, sandbox)
        under = {os.path.relpath(p, orel): created[p] for p in created
                 if (p + "/").startswith(orel + "/") and not p.endswith("/")}
        # (pages that replaced a file of an earlier run count as written by this run)
        under.update({os.path.relpath(p, orel): after[p] for p in changed
                      if (p + "/").startswith(orel + "/") and not p.endswith("/") and after[p] is not None})
        obs["outside_out"] = sorted(p for p in created if not (p.rstrip("/") + "/").startswith(orel + "/")
                                    and not (orel + "/").startswith(p))
        obs["out_files"] = sorted(under)
        obs["indexes"] = {}
        obs["pages"] = {}
        for p, data in under.items():
            if os.path.basename(p) == "index.rst":
                try:
                    obs["indexes"][os.path.dirname(p)] = read_index(data.decode("utf-8"))
                except Exception as e:
                    obs["indexes"][os.path.dirname(p)] = {"error": repr(e)}
            else:
                obs["pages"][p] = data.decode("utf-8", "replace")
        # C13, second sentence: a page's content is what CMinx produces for that file on its own
        diff = []
        for d, f in beh["ideal"]["files"]:
            rel = os.path.join(*(d + [".".join(f.split(".")[:-1]) + ".rst"]))
            if rel not in obs["pages"] or f == "l1.cmake":
                continue
            tmpl = SOLO.get("empty") if f in NOTHING_TO_DOCUMENT else SOLO.get("mod") if f in MODULE_FILES else SOLO.get(f in KWARGS_FILES)
            if tmpl is None:
                continue
            want = tmpl.replace("@NAME@", f).replace("@IDENT@", ident("/".join(d + [f])))
            got = body_of(obs["pages"][rel])
            if got != want:
                diff.append([rel, want, got])
        obs["content_diff"] = diff[:3]
    else:
        obs["outside_out"] = sorted(created)
        obs["out_files"] = []
        obs["indexes"] = {}
        obs["pages"] = {}
    if not obs["docs"]:
        obs["docs"] = documented_from_pages(beh["tree"], list(obs["pages"].values()) + [obs["stdout"]])
    return obs


def expected_out_files(beh):
    """From the ideal (Req): the set of files that must exist under the output directory."""
    files = set()
    for d in beh["ideal"]["dirs"]:
        files.add(os.path.join(*(d + ["index.rst"])))
    for d, f in beh["ideal"]["files"]:
        stem = ".".join(f.split(".")[:-1])
        files.add(os.path.join(*(d + [stem + ".rst"])))
    return sorted(files)


def impl_out_files(beh):
    files = set()
    for e in beh["effects"]:
        if e["e"] == "index":
            files.add(os.path.join(*(e["dir"] + ["index.rst"])))
        elif e["e"] == "page":
            files.add(os.path.join(*(e["dir"] + [e["stem"] + ".rst"])))
    return sorted(files)


def judge(pid, beh, obs):
    """Returns (verdict, expected, observed, why) with verdict in ok / viol / out, for property pid."""
    cfg = beh["cfg"]
    hasout = cfg["out"]["kind"] != "none"
    if pid == "C14" and hasout and obs["exc"] is None:
        # closure is demanded of every run, whatever the tree: every toctree entry has a generated target and
        # every generated page / sub-index is listed by the index of its directory
        dangling, unlisted = [], []
        for k, ix in obs["indexes"].items():
            for e in ix.get("entries", []):
                target = os.path.normpath(os.path.join(k, e if e.endswith(".rst") else e + ".rst"))
                if target not in obs["out_files"]:
                    dangling.append([k, e])
        # C13/C14's quantifier: "the input directory itself holding at least one .cmake file when auto-exclusion is on".
        # Where it holds none (none left after the exclusion filters), the code skips the top directory's index but
        # still descends; that the first-level indexes are then listed nowhere is outside the quantifier
        top_carved_out = cfg["auto"] and not beh["indom"] and "" not in obs["indexes"] \
            and not any(d == [] and f.endswith(".cmake") for d, f in beh["ideal"]["files"])
        for f in obs["out_files"]:
            d, b = os.path.dirname(f), os.path.basename(f)
            if b == "index.rst":
                if d and cfg["recursive"]:
                    parent = os.path.dirname(d)
                    if parent == "" and top_carved_out:
                        continue
                    if os.path.basename(d) + "/index.rst" not in obs["indexes"].get(parent, {}).get("entries", []):
                        unlisted.append(f)
            elif b[:-4] not in obs["indexes"].get(d, {}).get("entries", []):
                unlisted.append(f)
        if dangling or unlisted:
            return "viol", [], {"dangling_entries": dangling, "pages_not_listed": unlisted}, "toctrees are not closed: an entry without target or a generated page no index lists"
    if not beh["indom"]:
        return "out", None, None, None
    if any("l1.cmake" in n["files"] for n in beh["tree"]):
        # a file that is not UTF-8 is not valid input: the run may fail on it; only closure (above) is demanded
        return "out", None, None, None
    whole_excluded = beh["outcome"] == "excluded" or (not beh["ideal"]["dirs"])
    if obs["exc"] is not None:
        return "viol", "run completes", obs["exc"], "cminx.document raised / did not terminate normally on an in-domain tree"
    ideal_dirs = ["/".join(d) for d in beh["ideal"]["dirs"]]
    ideal_files = sorted("/".join(d + [f]) for d, f in beh["ideal"]["files"])
    if pid == "C13":
        if hasout:
            exp = expected_out_files(beh)
            if obs["out_files"] != exp:
                return "viol", exp, obs["out_files"], "files under the output directory are not exactly one page per processed file plus one index per processed directory"
            if obs.get("content_diff"):
                rel, want, got = obs["content_diff"][0]
                return "viol", {rel: want}, {rel: got}, "a page's content differs from what CMinx produces for that file on its own"
        else:
            if sorted(obs["docs"]) != ideal_files:
                return "viol", ideal_files, sorted(obs["docs"]), "files documented (stdout mode) are not exactly the processed files"
        return "ok", None, None, None
    if pid == "C15":
        if sorted(obs["docs"]) != ideal_files:
            return "viol", ideal_files, sorted(obs["docs"]), "documented files differ from the non-excluded files"
        if hasout and obs["out_files"] != expected_out_files(beh):
            # what is on disk at the end: the pages and indexes of exactly the non-excluded files and directories
            return "viol", expected_out_files(beh), obs["out_files"], "the files under the output directory are not those of the non-excluded files and directories"
        exc = set("/".join(d) for d in beh["excluded"])
        bad = [r for r in obs["walk_roots"] + [s for s in obs["scandirs"] if s != "."] if r in exc]
        if bad:
            return "viol", [], bad, "an excluded directory was listed (descended into or scanned)"
        if whole_excluded and (obs["created"] or obs["stdout"].strip()):
            return "viol", [], obs["created"] + [obs["stdout"][:100]], "the input path is excluded but output was produced"
        return "ok", None, None, None
    if pid == "C14":
        if not hasout:
            return "out", None, None, None
        exp = {}
        for d in beh["ideal"]["dirs"]:
            key = "/".join(d)
            subs = sorted(x[-1] for x in beh["ideal"]["dirs"] if len(x) == len(d) + 1 and x[:len(d)] == d)
            stems = sorted(".".join(f.split(".")[:-1]) for dd, f in beh["ideal"]["files"] if dd == d)
            title = "in" if not d else "in" + cfg["sep"] + "/".join(d)
            exp[key] = {"title": title, "entries": sorted(([s + "/index.rst" for s in subs] if cfg["recursive"] else []) + stems)}
        got = {}
        for k, ix in obs["indexes"].items():
            if "error" in ix:
                got[k] = ix
            else:
                got[k] = {"title": ix["title"], "entries": sorted(ix["entries"])}
                if ix["n_toctrees"] != 1 or len(set(ix["entries"])) != len(ix["entries"]):
                    got[k]["malformed"] = [ix["n_toctrees"], ix["entries"]]
        # closure on what was really written: every entry has a target, every page is listed
        dangling = []
        for k, ix in obs["indexes"].items():
            for e in ix.get("entries", []):
                target = os.path.normpath(os.path.join(k, e if e.endswith(".rst") else e + ".rst"))
                if target not in obs["out_files"]:
                    dangling.append([k, e])
        if dangling:
            return "viol", [], dangling, "toctree entries without a generated target"
        if got != exp:
            # what C14 states about titles: the top index is titled by the prefix, a sub-directory's index names that
            # directory; the exact composition (prefix + separator + relative path) is the code's choice -> drift
            loose_ok = set(got) == set(exp)
            for k in exp:
                if not loose_ok:
                    break
                g = got.get(k, {})
                if g.get("entries") != exp[k]["entries"] or "malformed" in g or "error" in g:
                    loose_ok = False
                elif k == "" and g.get("title") != exp[k]["title"]:
                    loose_ok = False
                elif k != "" and os.path.basename(k) not in (g.get("title") or ""):
                    loose_ok = False
            if not loose_ok:
                return "viol", exp, got, "index.rst titles/toctrees differ from the processed files and sub-directories"
            return "ok-drift", exp, got, None
        return "ok", None, None, None
    raise ValueError(pid)


def permuted(beh, variant, n):
    """The ideal does not depend on the listing order, so every behaviour is also replayed under other orders than the
    witness TLC happened to keep (with the repaired code all orders reach the same abstract state and the VIEW
    keeps one of them): reversed, and a seeded shuffle."""
    if variant == 0:
        return beh
    b = dict(beh)
    ls = []
    for l in beh.get("listings", []):
        rng = random.Random(n * 31 + variant + len(l["dir"]))
        nd, nf = list(l["ldirs"]), list(l["lfiles"])
        if variant == 1:
            nd.reverse()
            nf.reverse()
        else:
            rng.shuffle(nd)
            rng.shuffle(nf)
        ls.append({"dir": l["dir"], "ldirs": nd, "lfiles": nf})
    b["listings"] = ls
    b["effects_order_unknown"] = True
    return b


def _chunk(args):
    pid, chunk, base = args
    out = []
    for n, beh0 in chunk:
      for variant in range(3):
        beh = permuted(beh0, variant, n)
        if variant and not any(len(l["ldirs"]) > 1 or len(l["lfiles"]) > 1 for l in beh0.get("listings", [])):
            continue
        sb = tempfile.mkdtemp(prefix="case_", dir=base)
        try:
            obs = run_case(beh, sb)
            v, exp, got, why = judge(pid, beh, obs)
            drift = None
            if v == "ok-drift":
                v, drift = "ok", {"index_titles": {"model": exp, "observed": got}}
            if drift is None and beh["outcome"] == "ok" and obs["exc"] is None and not any("l1.cmake" in nd["files"] for nd in beh["tree"]):
                if cfg_has_out(beh) and obs["out_files"] != impl_out_files(beh):
                    drift = {"impl_files": impl_out_files(beh), "observed": obs["out_files"]}
                idocs = ["/".join(e["dir"] + [e["file"]]) for e in beh["effects"] if e["e"] in ("page", "print")]
                same = (sorted(obs["docs"]) == sorted(idocs)) if beh.get("effects_order_unknown") else (obs["docs"] == idocs)
                if not same:
                    drift = {"impl_docs": idocs, "observed": obs["docs"]}
            elif beh["outcome"] == "diverges" and obs["exc"] is None:
                drift = {"impl": "diverges", "observed": "terminated"}
            impl_agrees = drift is None and not obs["unlisted"]
            out.append((n, v, exp, got, why, drift, impl_agrees, beh["listings"]))
        finally:
            rmtree(sb)
    return out


def cfg_has_out(beh):
    return beh["cfg"]["out"]["kind"] != "none"


def _init(src):
    lib.CMINX_SRC = src
    lib.use_repo_sources()
    try:
        capture_solo()
    except Exception:
        SOLO.clear()


def features(beh):
    cfg = beh["cfg"]
    names = set()
    for node in beh["tree"]:
        names.update(node["files"])
    return {"out_kind": cfg["out"]["kind"], "recursive": cfg["recursive"], "auto": cfg["auto"], "sep": cfg["sep"],
            "n_patterns": len(cfg["pats"]), "has_bare_cmake_file": "cmake" in names}


def beh_fields(b):
    """descriptor of a walk behaviour for covering_sample: tree shape, patterns, options"""
    c = b["cfg"]
    return {"tree": json.dumps(b["tree"], sort_keys=True), "pats": "|".join(c["pats"]), "recursive": c["recursive"], "auto": c["auto"],
            "sep": c["sep"], "out": c["out"]["kind"], "follow": c.get("follow", False)}


def unmangle(behs):
    """ "e~" in a name of the specification stands for 'e' + COMBINING ACUTE ACCENT (not NFC)"""
    return [json.loads(json.dumps(b).replace("e~", "e\\u0301")) for b in behs]


def replay(run, pid, behs, seed, limit=None):
    behs = unmangle(behs)
    if limit and len(behs) > limit:
        behs = lib.covering_sample(behs, beh_fields, limit, seed)
    base = tempfile.mkdtemp(prefix="verif_walk_", dir="/dev/shm" if os.path.isdir("/dev/shm") else None)
    try:
        items = list(enumerate(behs))
        chunks = [(pid, items[i::lib.NCPU * 4], base) for i in range(lib.NCPU * 4)]
        chunks = [c for c in chunks if c[1]]
        stats = run.notes.setdefault("replay_verdicts", {"ok": 0, "out": 0, "viol": 0})
        with ProcessPoolExecutor(max_workers=lib.NCPU, initializer=_init, initargs=(lib.CMINX_SRC,)) as ex:
            for part in ex.map(_chunk, chunks):
                for n, v, exp, got, why, drift, impl_agrees, listings in part:
                    beh = behs[n]
                    run.behaviours += 1
                    stats[v] += 1
                    if v != "out":
                        run.count(json.dumps([beh["tree"], beh["cfg"], listings], sort_keys=True))
                    if v == "viol":
                        case = {"tree": beh["tree"], "cfg": beh["cfg"], "listings": listings,
                                "features": features(beh), "obs_equals_impl_model": impl_agrees}
                        run.violation(case, exp, got, why)
                    elif drift:
                        run.drifted({"tree": beh["tree"], "cfg": beh["cfg"], "drift": drift})
        if behs:
            b = behs[len(behs) // 3]
            run.sample({"tree": b["tree"], "cfg": b["cfg"], "listings": b["listings"]})
    finally:
        rmtree(base)


# ---------------------------------------------------------------- C18: effects and the stdout branch
VARIANTS = [
    {},
    {"rst": {"prefix": "pfx", "file_extensions_in_titles": True}},
    {"rst": {"headers": ["=", "-"], "file_extensions_in_modules": True}, "input": {"include_undocumented_function": False}},
    {"rst": {"module_path_separator": "::"}, "input": {"include_undocumented_macro": False, "include_undocumented_option": False}},
]


@contextlib.contextmanager
def instrumented(inp, listings, obs):
    import cminx
    real_walk, real_dsf = os.walk, cminx.document_single_file

    def order(names, want):
        pos = {n: i for i, n in enumerate(want)}
        return sorted(names, key=lambda n: (pos.get(n, len(want)), n))

    def walk(top, topdown=True, onerror=None, followlinks=False):
        for root, dirs, files in real_walk(top, topdown, onerror, followlinks):
            rel = os.path.relpath(root, inp)
            rel = "" if rel == "." else rel
            if rel.count("/") > 9:
                raise RuntimeError("walk diverges")
            l = listings.get(rel)
            if l is not None and sorted(l["ldirs"]) == sorted(dirs) and sorted(l["lfiles"]) == sorted(files):
                dirs[:] = order(dirs, l["ldirs"])
                files[:] = order(files, l["lfiles"])
            else:
                dirs[:] = sorted(dirs, reverse=True)
                files[:] = sorted(files, reverse=True)
            yield root, dirs, files

    def dsf(file, root, s):
        obs["docs"].append(os.path.relpath(file, inp))
        return real_dsf(file, root, s)
    os.walk, cminx.document_single_file = walk, dsf
    try:
        yield
    finally:
        os.walk, cminx.document_single_file = real_walk, real_dsf


def c18_case(beh, sandbox, n):
    """Run the same invocation with and without -o; returns None or (expected, observed, why)."""
    import yaml
    import naming
    cfg = beh["cfg"]
    variant = VARIANTS[n % len(VARIANTS)]
    kind = cfg["out"]["kind"]
    style = ["abs", "rel", "parent"][n % 3] if kind in ("outside", "none") else kind
    prepop = (n // 3) % 2 == 0

    def build(root):
        work = os.path.join(root, "work")
        inp = os.path.join(work, "in")
        os.makedirs(inp)
        materialise(beh["tree"], inp)
        if n % 4 == 1:
            # one large module (64 KiB of comments after its commands): whatever size-dependent route it takes, the
            # run writes only below the output directory
            for r, ds, fs in os.walk(inp):
                for f in sorted(fs):
                    if f.endswith(".cmake") and f not in NOTHING_TO_DOCUMENT and f != "l1.cmake":
                        with open(os.path.join(r, f), "a") as fh:
                            fh.write("# padding line of a large module\n" * 2048)
                        break
                break
        with open(os.path.join(work, "bystander.txt"), "w") as fh:
            fh.write("keep me\n")
        os.makedirs(os.path.join(root, "home"))
        if n % 40 != 0:
            # the per-user configuration directory exists (as after any earlier run); every 40th case probes
            # the first-run situation (known finding K2: confuse creates the directory)
            os.makedirs(os.path.join(root, "home", ".config", "cminx"))
        if style == "abs":
            out, spelled = os.path.join(root, "outdir"), os.path.join(root, "outdir")
        elif style == "rel":
            out, spelled = os.path.join(work, "rel", "out"), os.path.join("rel", "out")
        elif style == "parent":
            out, spelled = work, work
        else:
            out = os.path.join(inp, *cfg["out"]["path"])
            spelled = out
        if prepop and style != "parent":
            os.makedirs(os.path.join(out, "old"), exist_ok=True)
            for f in ("keep.txt", "old/keep.rst", "unrelated.rst"):
                with open(os.path.join(out, f), "w") as fh:
                    fh.write("pre-existing " + f)
            # stale output of an earlier run, newer than the sources: pages and indexes of this run replace it
            for f in ("x.rst", "index.rst", "z.rst"):
                pth = os.path.join(out, f)
                with open(pth, "w") as fh:
                    fh.write(STALE)
                os.utime(pth, (4102444800, 4102444800))
        s = {"input": {"recursive": cfg["recursive"], "auto_exclude_directories_without_cmake": cfg["auto"], "follow_symlinks": bool(cfg.get("follow")),
                       "exclude_filters": [subst_pat(p, inp) for p in cfg["pats"]]},
             "rst": {}, "logging": yaml.safe_load(open(os.path.join(lib.CMINX_SRC, "cminx", "config_default.yaml")))["logging"]}
        for sec, vals in variant.items():
            s[sec].update(vals)
        sfile = os.path.join(root, "settings.yaml")
        with open(sfile, "w") as fh:
            yaml.safe_dump(s, fh)
        return work, inp, out, spelled, sfile

    listings = {"/".join(l["dir"]): l for l in beh.get("listings", [])}
    ra = os.path.join(sandbox, "A")
    rb = os.path.join(sandbox, "B")
    os.makedirs(ra)
    os.makedirs(rb)
    work, inp, out, spelled, sfile = build(ra)
    before = snapshot(ra)
    oa = {"docs": []}
    with instrumented(inp, listings, oa):
        exc, _ = naming.run_main(["-s", sfile, "-o", spelled, "in"], work, os.path.join(ra, "home"))
    after = snapshot(ra)
    if exc:
        return "run with -o completes", exc, "cminx raised on an in-domain input"
    orel = os.path.relpath(out, ra)

    def under(p):
        return (p.rstrip("/") + "/").startswith(orel + "/") or (orel + "/").startswith(p) and p.endswith("/")
    created = [p for p in after if p not in before]
    changed = [p for p in before if p in after and before[p] != after[p]]
    deleted = [p for p in before if p not in after]
    bad = [p for p in created + changed if not under(p)] + deleted
    pre_touched = [p for p in changed if os.path.basename(p.rstrip("/")) in ("keep.txt", "keep.rst", "unrelated.rst", "bystander.txt")]
    # a stale page is only "unrelated" if this run has no page of that name
    stale_left = [p for p in after if after[p] == STALE.encode() and os.path.basename(p) in ("x.rst", "z.rst", "index.rst")]
    if bad or pre_touched:
        only_cfg = bool(bad) and not pre_touched and set(bad) <= {"home/.config/", "home/.config/cminx/"}
        return [], {"outside_output_dir_or_deleted": bad, "preexisting_changed": pre_touched, "only_user_config_dir": only_cfg}, \
            "the run created/changed/deleted something outside the output directory or touched unrelated files in it"
    # pages written by run A (every .rst under the output directory that is not an index)
    pages = {}
    for r, ds, fs in os.walk(out):
        for f in fs:
            if f.endswith(".rst") and f != "index.rst" and not f.endswith("keep.rst") and f != "unrelated.rst":
                rel = os.path.relpath(os.path.join(r, f), out)
                txt = open(os.path.join(r, f), encoding="utf-8").read()
                if txt != STALE:
                    pages[rel] = txt
    want_docs = documented_from_pages(beh["tree"], list(pages.values()))
    if oa["docs"] and sorted(oa["docs"]) != sorted(want_docs):
        return sorted(oa["docs"]), sorted(want_docs), "files documented and pages found under the output directory differ"
    work, inp, out, spelled, sfile = build(rb)
    before = snapshot(rb)
    ob = {"docs": []}
    with instrumented(inp, listings, ob):
        exc, stdout = naming.run_main(["-s", sfile, "in"], work, os.path.join(rb, "home"))
    after = snapshot(rb)
    if exc:
        return "run without -o completes", exc, "cminx raised on an in-domain input"
    if after != before:
        diff = sorted(set(after) ^ set(before)) + [p for p in before if p in after and before[p] != after[p]]
        return [], diff, "a run without output directory changed the file system"
    # stdout must be a concatenation of exactly the written pages, each followed by one empty line
    rest = stdout
    order = []
    left = dict(pages)
    while rest:
        hit = [k for k, v in left.items() if rest.startswith(v + "\n")]
        if not hit:
            break
        k = max(hit, key=lambda x: len(left[x]))
        order.append(k)
        rest = rest[len(left.pop(k)) + 1:]
    if rest or left:
        exp = "".join(pages[k] + "\n" for k in sorted(pages))
        return exp, stdout, "standard output is not exactly the pages the -o run wrote, each followed by one empty line"
    # per directory: contiguous and in sorted order
    seen = []
    for d in order:
        dd = os.path.dirname(d)
        if seen and seen[-1][0] == dd:
            # order of the SOURCE names: x.cmake < x.d.cmake although "x.rst" > "x.d.rst" (compare stem + ".")
            if seen[-1][1][:-3] > os.path.basename(d)[:-3]:
                return "sorted", order, "pages of a directory are not printed in sorted name order"
        elif dd in [x[0] for x in seen]:
            return "contiguous", order, "pages of a directory are not printed together"
        seen.append((dd, os.path.basename(d)))
    return None


def _chunk18(args):
    chunk, base = args
    out = []
    for n, beh in chunk:
        sb = tempfile.mkdtemp(prefix="c18_", dir=base)
        try:
            valid = beh["indom"] and beh["outcome"] == "ok" and not any("l1.cmake" in nd["files"] for nd in beh["tree"])
            r = c18_case(beh, sb, n) if valid else "out"     # (a file that is not UTF-8 is not valid input)
            out.append((n, r))
        finally:
            rmtree(sb)
    return out


def replay_c18(run, behs, seed, limit=None):
    behs = unmangle(behs)
    if limit and len(behs) > limit:
        behs = lib.covering_sample(behs, beh_fields, limit, seed)
    base = tempfile.mkdtemp(prefix="verif_c18_", dir="/dev/shm" if os.path.isdir("/dev/shm") else None)
    try:
        items = list(enumerate(behs))
        chunks = [(items[i::lib.NCPU * 4], base) for i in range(lib.NCPU * 4)]
        chunks = [c for c in chunks if c[0]]
        with ProcessPoolExecutor(max_workers=lib.NCPU, initializer=_init, initargs=(lib.CMINX_SRC,)) as ex:
            for part in ex.map(_chunk18, chunks):
                for n, r in part:
                    beh = behs[n]
                    run.behaviours += 1
                    if r == "out":
                        continue
                    run.count(json.dumps([beh["tree"], beh["cfg"], beh["listings"], n % 12], sort_keys=True))
                    if r is not None:
                        exp, got, why = r
                        feats = features(beh)
                        feats["only_user_config_dir_created"] = bool(isinstance(got, dict) and got.get("only_user_config_dir"))
                        run.violation({"tree": beh["tree"], "cfg": beh["cfg"], "listings": beh["listings"], "variant": n % 12,
                                       "features": feats}, exp, got, why)
        if behs:
            b = behs[len(behs) // 2]
            run.sample({"tree": b["tree"], "cfg": b["cfg"], "listings": b["listings"]})
    finally:
        rmtree(base)


def two_inputs_case(run):
    """C14's title clause with two directory inputs on one command line: the indexes of the second tree are titled with
    the second directory's name (nothing of the first run's settings may carry over)."""
    import naming
    base = tempfile.mkdtemp(prefix="verif_c14two_", dir="/dev/shm" if os.path.isdir("/dev/shm") else None)
    try:
        for top, sub in (("alpha", "na"), ("beta", "nb")):
            os.makedirs(os.path.join(base, top, sub))
            for rel in ("m.cmake", sub + "/k.cmake"):
                with open(os.path.join(base, top, rel), "w") as fh:
                    fh.write(CMAKE_BODY.format(name=rel, ident=ident(top + "/" + rel)))
        os.makedirs(os.path.join(base, "home", ".config", "cminx"))
        for order in (["alpha", "beta"], ["beta", "alpha"]):
            out = os.path.join(base, "out_" + order[0])
            exc, _ = naming.run_main(["-r", "-o", out] + order, base, os.path.join(base, "home"))
            run.count("two-directory-inputs:" + order[0])
            got = {}
            for top, sub in (("alpha", "na"), ("beta", "nb")):
                try:
                    got[top] = read_index(open(os.path.join(out, sub, "index.rst"), encoding="utf-8").read())["title"]
                except OSError as e:
                    got[top] = "missing: %r" % (e,)
            want = {"alpha": "alpha.na", "beta": "beta.nb"}
            if exc or got != want:
                run.violation({"argv": ["-r", "-o", "out"] + order, "features": {"two_directory_inputs": True}}, want,
                              {"exc": exc, "titles": got}, "an index.rst is not titled with its own input directory's name")
    finally:
        import subprocess
        subprocess.run(["rm", "-rf", base])


def script_entry_case(run):
    """C15 through the packaged entry script (src/main.py, what the built executable runs): patterns that contain glob
    characters arrive as given, whatever the working directory holds that the pattern would match."""
    import runsh
    base = tempfile.mkdtemp(prefix="verif_c15script_", dir="/dev/shm" if os.path.isdir("/dev/shm") else None)
    try:
        for rel in ("in/top.cmake", "in/build_tools/t.cmake", "in/lib/build_info.cmake", "in/lib/other.cmake", "build/stamp.txt", "lib0/x.txt"):
            os.makedirs(os.path.dirname(os.path.join(base, rel)), exist_ok=True)
            with open(os.path.join(base, rel), "w") as fh:
                fh.write(CMAKE_BODY.format(name=rel, ident=ident(rel)) if rel.endswith(".cmake") else "x\n")
        home = os.path.join(base, "home")
        os.makedirs(os.path.join(home, ".config", "cminx"))
        for pat, gone in (("build*", ["build_tools/t.rst", "lib/build_info.rst"]), ("lib?", []), ("[l]ib", ["lib/other.rst", "lib/build_info.rst"])):
            out = os.path.join(base, "out_" + ident(pat))
            rc, so, se = runsh.run_process(["-r", "-o", out, "-e", pat, "in"], base, home)
            run.count("script-entry:" + pat)
            tree = sorted(runsh.read_tree(out)) if os.path.isdir(out) else []
            allp = ["top.rst", "build_tools/t.rst", "lib/build_info.rst", "lib/other.rst"]
            want = sorted(p for p in allp if p not in gone)
            got = sorted(p for p in tree if not p.endswith("index.rst"))
            if rc != 0 or got != want:
                run.violation({"argv": ["-r", "-o", "out", "-e", pat, "in"], "cwd_holds": ["build/", "lib0/"], "features": {"entry_script": True}},
                              want, {"status": rc, "pages": got, "stderr": se[-200:]},
                              "through the packaged entry script the exclusion pattern does not apply as given")
    finally:
        import subprocess
        subprocess.run(["rm", "-rf", base])


def file_input_case(run):
    """A single FILE given as input that lies below a directory an exclusion pattern matches (also a directory-only
    pattern 'name/'): the whole input is excluded, nothing is written or printed (C15: every matching path)."""
    import naming
    base = tempfile.mkdtemp(prefix="verif_c15file_", dir="/dev/shm" if os.path.isdir("/dev/shm") else None)
    try:
        os.makedirs(os.path.join(base, "proj", "generated", "deep"))
        os.makedirs(os.path.join(base, "home", ".config", "cminx"))
        for rel in ("proj/generated/g.cmake", "proj/generated/deep/d.cmake", "proj/kept.cmake"):
            with open(os.path.join(base, rel), "w") as fh:
                fh.write(CMAKE_BODY.format(name=rel, ident=ident(rel)))
        for pat in ("generated/", "gen*/", "**/generated/", os.path.join(base, "proj", "generated") + "/", "generated"):
            for inp in ("proj/generated/g.cmake", "proj/generated/deep/d.cmake"):
                for with_out in (True, False):
                    out = os.path.join(base, "out_%s_%s_%s" % (ident(pat)[-12:], ident(inp)[-8:], with_out))
                    exc, so = naming.run_main((["-o", out] if with_out else []) + ["-e", pat, inp], base, os.path.join(base, "home"))
                    run.count("file-input-excluded:%s:%s:%s" % (pat, inp, with_out))
                    wrote = sorted(os.listdir(out)) if os.path.isdir(out) else []
                    # (with -o the log line that names the output directory goes to stdout; pages would not)
                    if exc or wrote or (not with_out and so.strip()):
                        run.violation({"argv": ["-e", pat, inp] + (["-o", "out"] if with_out else []), "features": {"file_input_below_excluded_directory": True}},
                                      "no page, nothing printed", {"exc": exc, "written": wrote, "stdout": so[:200]},
                                      "a file input below an excluded directory is documented")
        # the control: a file that no pattern matches is documented
        exc, so = naming.run_main(["-e", "generated/", "proj/kept.cmake"], base, os.path.join(base, "home"))
        if exc or "f_" + ident("proj/kept.cmake") not in so:
            run.violation({"argv": ["-e", "generated/", "proj/kept.cmake"], "features": {"file_input_not_excluded": True}}, "the page on stdout",
                          {"exc": exc, "stdout": so[:200]}, "a file input that no pattern matches is not documented")
    finally:
        import subprocess
        subprocess.run(["rm", "-rf", base])


def single_file_output_case(run):
    """C18 for single-file inputs: only <out>/<name>.rst is written, whatever else the output directory holds - a
    hand-written index.rst included - stays byte for byte."""
    import naming
    base = tempfile.mkdtemp(prefix="verif_c18file_", dir="/dev/shm" if os.path.isdir("/dev/shm") else None)
    try:
        os.makedirs(os.path.join(base, "home", ".config", "cminx"))
        for rel in ("one.cmake", "sub/two.cmake"):
            os.makedirs(os.path.dirname(os.path.join(base, rel)) or base, exist_ok=True)
            with open(os.path.join(base, rel), "w") as fh:
                fh.write(CMAKE_BODY.format(name=rel, ident=ident(rel)))
        for inputs in (["one.cmake"], ["one.cmake", "sub/two.cmake"]):
            out = os.path.join(base, "out%d" % len(inputs))
            os.makedirs(os.path.join(out, "guide"))
            keep = {"index.rst": "My hand-written front page\n==========================\n", "guide/intro.rst": "Intro\n=====\n", "notes.txt": "n\n"}
            for rel, txt in keep.items():
                with open(os.path.join(out, rel), "w") as fh:
                    fh.write(txt)
            before = snapshot(base)
            exc, so = naming.run_main(["-o", out] + inputs, base, os.path.join(base, "home"))
            after = snapshot(base)
            run.count("single-file-output:%d" % len(inputs))
            created = sorted(p for p in after if p not in before)
            changed = sorted(p for p in before if p in after and before[p] != after[p])
            deleted = sorted(p for p in before if p not in after)
            orel = os.path.relpath(out, base)
            want = sorted(os.path.join(orel, os.path.basename(i)[:-len(".cmake")] + ".rst") for i in inputs)
            if exc or created != want or changed or deleted:
                run.violation({"argv": ["-o", "out"] + inputs, "prepopulated": sorted(keep), "features": {"single_file_inputs": True}},
                              {"created": want, "changed": [], "deleted": []}, {"exc": exc, "created": created, "changed": changed, "deleted": deleted},
                              "single-file inputs with -o: something besides their own pages was written, changed or deleted")
    finally:
        import subprocess
        subprocess.run(["rm", "-rf", base])
