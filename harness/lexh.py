"""C05 / C06 / layout half of C04: CMakeGen.tla behaviours replayed on the real lexer, parser and Documenter."""
import contextlib
import io
import json
import os
import random
import tempfile
from concurrent.futures import ProcessPoolExecutor

import lib

LETTER_POOL = "abcdfghxyzABZ"
NONASCII = ["é", "ß", "漢", "🙂", "ñ"]
OTHER = "{}<>:.-+*/,!?&~^|%"
# characters str.splitlines() treats as line ends although CMake does not (only where asked for: C05)
EXOTIC_NONASCII = ["\u2028", "\x85", "\u2029"]
EXOTIC_OTHER = "\x0c\x0b\x1c"


def concretize(syms, seed, exotic=False):
    """class symbols -> (text, offsets) where offsets[i] = char offset of symbol i (0-based), offsets[len] = len(text)."""
    rng = random.Random(seed)
    nonascii = NONASCII + (EXOTIC_NONASCII if exotic else [])
    other = OTHER + (EXOTIC_OTHER if exotic else "")
    out = []
    offs = []
    n = 0
    for s in syms:
        offs.append(n)
        if s == "a":
            c = rng.choice(LETTER_POOL)
        elif s == "M":
            c = "module"
        elif s == "1":
            c = rng.choice("0123456789")
        elif s == "e":
            c = rng.choice(nonascii)
        elif s == "o":
            c = rng.choice(other)
        else:
            c = s
        out.append(c)
        n += len(c)
    offs.append(n)
    return "".join(out), offs


def classify(text, with_map=False):
    """real text -> class symbols, for binding B.  The word 'module' directly after '@' is one symbol "M"
    (as in the grammar's literal '@module'); every other character is one symbol."""
    out = []
    start_of = []     # symbol index (0-based) of every character
    i = 0
    n = len(text)
    while i < n:
        ch = text[i]
        if ch == "@" and text.startswith("module", i + 1):
            out.append("@")
            start_of.append(len(out) - 1)
            out.append("M")
            start_of.extend([len(out) - 1] * 6)
            i += 7
            continue
        if ch in "tnr":
            out.append(ch)
        elif ch.isascii() and ch.isalpha():
            out.append("a")
        elif ch.isascii() and ch.isdigit():
            out.append("1")
        elif ch in "_ \t\n\r()#\"\\[]=;$@":
            out.append(ch)
        elif ord(ch) > 127:
            out.append("e")
        else:
            out.append("o")
        start_of.append(len(out) - 1)
        i += 1
    return (out, start_of) if with_map else out


TOKEN_NAMES = None


def token_names():
    global TOKEN_NAMES
    if TOKEN_NAMES is None:
        from cminx.parser.CMakeLexer import CMakeLexer
        names = ["Module_docstring", "Docstring", "Doccomment_start", "Blockcomment_end", "Identifier", "Unquoted_argument",
                 "Escape_sequence", "Quoted_argument", "Bracket_argument", "Bracket_comment", "Line_comment", "Newline", "Space"]
        TOKEN_NAMES = {getattr(CMakeLexer, n): n for n in names}
        TOKEN_NAMES[CMakeLexer.T__0] = "("
        TOKEN_NAMES[CMakeLexer.T__1] = ")"
    return TOKEN_NAMES


def real_lex(text):
    """tokens [(name, start, stop)] (char offsets, inclusive) and lexical error spans from the real CMakeLexer"""
    from antlr4 import InputStream, Token
    from cminx.parser.CMakeLexer import CMakeLexer
    names = token_names()
    toks, errs = [], []
    lx = CMakeLexer(InputStream(text))
    lx.removeErrorListeners()

    class L:
        def syntaxError(self, rec, sym, line, col, msg, e):
            errs.append([rec._tokenStartCharIndex, rec._input.index])
    lx.addErrorListener(L())
    while True:
        t = lx.nextToken()
        if t.type == Token.EOF:
            break
        toks.append([names.get(t.type, str(t.type)), t.start, t.stop])
    return toks, errs


def real_parse(text):
    """flat commands from the public parse tree of a Documenter reading a file with this text (so that the
    Documenter's own decoding / input handling is part of what is observed), or the exception text"""
    from cminx.parser.CMakeParser import CMakeParser
    from cminx.documenter import Documenter
    import agg
    err = io.StringIO()
    path = agg._tmpfile()
    with open(path, "w", encoding="utf-8", newline="") as fh:
        fh.write(text)
    with contextlib.redirect_stderr(err):
        try:
            p = Documenter(path, "t", "m", agg.make_settings()).parser
            tree = p.cmake_file()
        except BaseException as e:
            return None, "%s: %s" % (type(e).__name__, str(e)[:100]), err.getvalue()
    cmds = []

    def flat(ctx, out):
        for ch in ctx.getChildren():
            if isinstance(ch, CMakeParser.Single_argumentContext):
                out.append(["arg", ch.getText(), ch.start.start])
            elif isinstance(ch, CMakeParser.Compound_argumentContext):
                out.append(["(", "(", ch.start.start])
                flat(ch, out)
                out.append([")", ")", ch.stop.stop])

    def visit(ctx):
        for ch in ctx.getChildren():
            if isinstance(ch, CMakeParser.Command_invocationContext):
                args = []
                flat(ch, args)
                cmds.append([ch.Identifier().getText(), ch.start.start, args])
            elif hasattr(ch, "getChildren"):
                visit(ch)
    visit(tree)
    return cmds, None, err.getvalue()


def run_pipeline(text):
    """the whole Documenter on a file holding `text`; returns exception text or None, and stderr"""
    import agg
    status, page, _, err = agg.run_real(text, agg.make_settings())
    return (None if status == "ok" else page), err, (page if status == "ok" else None)


def expected_cmds(beh, text, offs):
    out = []
    for c in beh["cmds"]:
        name = text[offs[c["from"] - 1]:offs[c["from"] - 1 + len(c["name"])]]
        args = []
        for a in c["args"]:
            s = offs[a["from"] - 1]
            e = offs[a["from"] - 1 + len(a["t"])]
            args.append([a["k"], text[s:e], s])
        out.append([name, offs[c["from"] - 1], args])
    return out


DOC_KINDS = [("set", ""), ("option", ""), ("add_test", ""), ("ct_add_test", ""), ("ct_add_section", ""), ("message", ""),
             ("cpp_attr", None), ("cpp_member", None), ("cpp_constructor", None),
             ("function", "\nendfunction()"), ("macro", "\nendmacro()"), ("cpp_class", "\ncpp_end_class()")]


def documented_variant(text, cmd, n):
    """`text` holds one command; returns the file with the command renamed to a documentable one (by rotation) and
    a doccomment in front of it; None where that kind needs a name argument the command does not have"""
    name, off, args = cmd
    kind, tail = DOC_KINDS[n % len(DOC_KINDS)]
    if kind in ("function", "macro", "cpp_class") and not (args and args[0][0] == "arg"):
        return None
    body = text[:off] + kind + text[off + len(name):]
    if tail is None:     # class members live inside a class; the definition that follows implements the member
        return "cpp_class(K)\n#[[[\n# doc\n#]]\n" + body + "\nfunction(x)\nendfunction()\ncpp_end_class()\n"
    return "#[[[\n# doc\n#]]\n" + body + tail + "\n"


def _chunk(args):
    pid, chunk, seed = args
    out = []
    for n, beh in chunk:
        if n % 97 == 0:
            run_pipeline('f(a "unterminated\n(\n')      # a file with syntax errors earlier in the same process (outcome ignored)
        text, offs = concretize(beh["text"], seed * 1000003 + n, exotic=(pid == "C05"))
        r = {"n": n, "text": text, "viol": None, "drift": None}
        if beh["fault"]["pos"] == 0:
            cmds, exc, _ = real_parse(text)
            want = expected_cmds(beh, text, offs)
            if exc is not None:
                r["viol"] = ("parse completes", exc, "the real parser rejects a file built from the reference grammar")
            elif cmds != want:
                r["viol"] = (want, cmds, "command invocations / argument boundaries differ from the reference grammar's")
            else:
                pexc, perr, _ = run_pipeline(text)
                if pexc is not None:
                    r["viol"] = ("Documenter.process() completes", pexc, "the pipeline raises on a valid file")
                elif pid == "C05" and len(want) == 1:
                    # the same argument list on a documentable command carrying a doccomment (one kind per file, in
                    # rotation): whatever a processor does with the arguments, a valid file is processed to completion
                    vtext = documented_variant(text, want[0], n)
                    if vtext is not None:
                        vexc, _, _ = run_pipeline(vtext)
                        if vexc is not None:
                            r["text"] = vtext
                            r["viol"] = ("Documenter.process() completes", vexc,
                                         "the pipeline raises on a valid file (documented command with these arguments)")
            toks, errs = real_lex(text)
            mtoks = [[t["k"], offs[t["from"] - 1], offs[t["to"]] - 1] for t in beh["toks"]]
            if toks != mtoks or bool(errs) != bool(beh["lexerrs"]):
                r["drift"] = {"model_tokens": mtoks, "real_tokens": toks, "real_errors": errs, "model_errors": beh["lexerrs"]}
        out.append(r)
    return out


def _init(src):
    lib.CMINX_SRC = src
    lib.use_repo_sources()


def replay(run, pid, behs, seed, limit=None):
    if limit and len(behs) > limit:
        behs = random.Random(seed).sample(behs, limit)
        run.exhaustive = False
    items = list(enumerate(behs))
    chunks = [(pid, items[i::lib.NCPU * 2], seed) for i in range(lib.NCPU * 2)]
    chunks = [c for c in chunks if c[1]]
    with ProcessPoolExecutor(max_workers=lib.NCPU, initializer=_init, initargs=(lib.CMINX_SRC,)) as ex:
        for part in ex.map(_chunk, chunks):
            for r in part:
                beh = behs[r["n"]]
                run.behaviours += 1
                run.count("".join(beh["text"]))
                if r["viol"]:
                    exp, got, why = r["viol"]
                    run.violation({"text": r["text"], "symbols": beh["text"], "features": {"nonascii": "e" in beh["text"]}}, exp, got, why)
                elif r["drift"]:
                    run.drifted({"text": r["text"], "drift": r["drift"]})
    if behs:
        b = behs[len(behs) // 2]
        run.sample({"file_as_class_symbols": "".join(b["text"]), "commands": [[c["name"], [a["t"] for a in c["args"]]] for c in b["cmds"]]})


def big_file_check(run):
    """Files larger than any plausible read buffer whose arguments are full of 2-, 3- and 4-byte characters, in four
    byte alignments: accepted, with every argument text exactly as written (C05: argument boundaries, whatever the
    byte offset a character falls on)."""
    for shift in range(4):
        parts = ["#" + "x" * shift + "\n"]
        want = []
        for i in range(48):
            ch = ["\U0001F642", "\u6f22", "\u00e9", "\U0001D518"][i % 4]
            arg = '"w%d %s"' % (i, ch * (300 + i))
            uq = "u%d%s" % (i, ch * 3)
            parts.append("cmd%d(%s %s)\n" % (i, arg, uq))
            want.append(["cmd%d" % i, [arg, uq]])
        text = "".join(parts)
        cmds, exc, _ = real_parse(text)
        run.count("bigfile-args:%d" % shift)
        case = {"source_bytes": len(text.encode("utf-8")), "byte_shift": shift, "features": {"big_file": True, "nonascii": True}}
        if exc is not None:
            run.violation(case, "parse completes", exc, "a large valid UTF-8 file is rejected")
            continue
        got = [[c[0], [a[1] for a in c[2]]] for c in cmds]
        if got != want:
            bad = [[w[0], [x[:14] for x in g[1]]] for w, g in zip(want, got) if w != g][:3]
            run.violation(case, "every argument as written", bad or [len(got), len(want)],
                          "argument texts of a large UTF-8 file differ from the source")


# ---------------------------------------------------------------- binding B: real token streams validated by TLC
CORPUS = "/usr/share/cmake-3.25"


def cmake_accepts(text, tmpdir, tag):
    """Does CMake itself parse this text?  The text is wrapped in a function that is never called,
    so nothing is executed; CMake parses the whole file before running anything."""
    import subprocess
    p = os.path.join(tmpdir, "wrap_%s.cmake" % tag)
    with open(p, "w", encoding="utf-8") as fh:
        fh.write("function(__verif_never_called)\n" + text + "\nendfunction()\n")
    r = subprocess.run(["cmake", "-P", p], stdout=subprocess.PIPE, stderr=subprocess.PIPE, timeout=120)
    os.unlink(p)
    return r.returncode == 0, r.stderr.decode("utf8", "replace")[-300:]


def trace_of(ident, text):
    toks, errs = real_lex(text)
    syms, m = classify(text, with_map=True)
    last = len(syms)

    def pos(c):     # char offset -> 1-based symbol index
        return m[c] + 1 if c < len(m) else last
    return {"id": ident, "text": syms, "toks": [[t[0], pos(t[1]), pos(t[2])] for t in toks],
            "errs": [[pos(e[0]), min(pos(e[1]), last)] for e in errs]}


def _corpus_one(path):
    try:
        text = open(path, encoding="utf-8").read()
    except Exception as e:
        return path, None, "decode: %r" % (e,), None
    tr = trace_of(os.path.relpath(path, CORPUS) if path.startswith(CORPUS) else path, text)
    exc, err, _ = run_pipeline(text)
    problem = None
    if tr["errs"]:
        s = tr["errs"][0][0]
        problem = "lexical error reported at offset %d near %r" % (s, text[max(0, s - 30):s + 20])
    elif exc:
        problem = "pipeline raised " + exc
    return path, tr, problem, text


def corpus_files(seed, n):
    import glob
    files = sorted(glob.glob(os.path.join(CORPUS, "**", "*.cmake"), recursive=True))
    if n and n < len(files):
        files = random.Random(seed).sample(files, n)
    return files


def validate_traces(run, traces, levels="{0, 1, 2}", label="TraceLex"):
    if not traces:
        return
    tmp = tempfile.mkdtemp(prefix="verif_lextrace_")
    path = os.path.join(tmp, "batch.json")
    with open(path, "w") as fh:
        json.dump({"traces": traces}, fh)
    try:
        res = lib.run_tlc("TraceLex", "CONSTANT BracketLevels = %s\nINIT Init\nNEXT Next\n" % levels,
                          env={"TRACE_FILE": path}, tags=("END", "REJ"), coverage=False, timeout=3600)
    finally:
        import shutil
        shutil.rmtree(tmp, ignore_errors=True)
    ends = res.lines.get("END", [])
    rejs = res.lines.get("REJ", [])
    if len(ends) + len(rejs) != len(traces):
        raise lib.MachineryError("lexer trace validation lost traces: %d verdicts for %d traces" % (len(ends) + len(rejs), len(traces)))
    run.states += res.distinct
    run.transitions += res.generated
    run.tlc_runs.append({"config": label, "distinct_states": res.distinct, "states_generated": res.generated,
                         "wall_s": round(res.wall, 1), "traces": len(traces), "characters": sum(len(t["text"]) for t in traces)})
    run.traces += len(ends)
    st = run.notes.setdefault("lexer_traces", {"accepted": 0, "rejected": 0, "characters": 0})
    st["accepted"] += len(ends)
    st["rejected"] += len(rejs)
    st["characters"] += sum(e["chars"] for e in ends)
    for r in rejs:
        run.drifted({"lexer_trace": r["id"], "rejection": r})


def corpus_check(run, seed, n, batch=250):
    """Real-world modules: acceptance by the real pipeline (verdict, for files CMake itself parses) and
    token-by-token validation of the real lexer against the step machine (binding B)."""
    files = corpus_files(seed, n)
    with ProcessPoolExecutor(max_workers=lib.NCPU, initializer=_init, initargs=(lib.CMINX_SRC,)) as ex:
        results = list(ex.map(_corpus_one, files, chunksize=8))
    tmp = tempfile.mkdtemp(prefix="verif_corpus_")
    traces = []
    stats = run.notes.setdefault("corpus", {"files": 0, "accepted": 0, "not_valid_cmake": 0, "bracket_levels_skipped": 0})
    try:
        for k, (path, tr, problem, text) in enumerate(results):
            stats["files"] += 1
            run.count("corpus:" + path)
            if problem is not None:
                ok, why = (False, "undecodable") if text is None else cmake_accepts(text, tmp, str(k))
                if not ok:
                    stats["not_valid_cmake"] += 1      # e.g. configure_file templates: CMake rejects them too
                    continue
                run.violation({"file": path, "features": {"corpus": True}}, "accepted without error", problem,
                              "a module that CMake itself parses is not processed cleanly")
                continue
            stats["accepted"] += 1
            if tr is not None:
                traces.append(tr)
    finally:
        import shutil
        shutil.rmtree(tmp, ignore_errors=True)
    for i in range(0, len(traces), batch):
        validate_traces(run, traces[i:i + batch], levels="{0, 1, 2, 4, 40, 70, 71}", label="TraceLex(corpus %d-%d)" % (i, i + batch))


# ---------------------------------------------------------------- C06: injected faults
import re as _re


def comment_spans(gap, base):
    """(start, end) char spans (inclusive) of the comments inside a stretch of trivia starting at offset base"""
    out = []
    i = 0
    while i < len(gap):
        if gap[i] == "#":
            m = _re.match(r"#\[(=*)\[", gap[i:])
            if m:
                close = "]" + m.group(1) + "]"
                j = gap.find(close, i + len(m.group(0)))
                end = len(gap) - 1 if j < 0 else j + len(close) - 1
            else:
                j = gap.find("\n", i)
                end = len(gap) - 1 if j < 0 else j
            out.append((base + i, base + end))
            i = end + 1
        else:
            i += 1
    return out


def fault_context(clean_text, p):
    """where does insertion offset p (0-based, before character p) fall in the valid file?"""
    toks, errs = real_lex(clean_text)
    prev = 0
    for name, s, e in toks:
        for cs, ce in comment_spans(clean_text[prev:s], prev):
            if cs < p <= ce:
                return "comment"
        if s < p <= e:
            if _re.match(r"^\[(=*)\[", clean_text[s:e + 1]) and name in ("Unquoted_argument", "Bracket_argument"):
                return "bracket"      # a bracket argument without special characters ties with Unquoted_argument
            return {"Bracket_argument": "bracket", "Quoted_argument": "quoted", "Unquoted_argument": "unquoted",
                    "Identifier": "identifier", "Docstring": "comment", "Module_docstring": "comment"}.get(name, "token")
        prev = e + 1
    for cs, ce in comment_spans(clean_text[prev:], prev):
        if cs < p <= ce:
            return "comment"
    return "between"


def c06_one(beh, seed, sandbox):
    import naming
    syms = beh["text"]
    fp, ft = beh["fault"]["pos"], beh["fault"]["t"]
    text, offs = concretize(syms, seed)
    # the fault's concrete text and the valid file it was injected into
    fstart = offs[fp - 1]
    fend = offs[fp - 1 + len(ft)]
    ftext = text[fstart:fend]
    clean = text[:fstart] + text[fend:]
    ctx = fault_context(clean, fstart)
    if ctx in ("comment", "bracket"):
        return {"verdict": "out", "why": "fault inside a comment or bracket argument"}
    if ftext == "\\" and text[fend:fend + 1] in ("\n", "\r") and ctx != "quoted":
        # backslash-newline outside a quoted argument: an escape_identity by the manual's regular expression
        # ('\\' followed by anything but [A-Za-z0-9;]), rejected by the cmake binary; not one of C06's fault classes
        return {"verdict": "out", "why": "backslash before a line ending: manual and binary disagree"}
    os.makedirs(sandbox, exist_ok=True)
    ok, cm_err = cmake_accepts(text, sandbox, "f")
    if not ok and any(m in cm_err for m in NOT_A_C06_FAULT):
        return {"verdict": "out", "why": "CMake's complaint is not one of C06's fault classes: " + cm_err[-120:]}
    if _re.search(r"\r(?!\n)", text):
        # a fault that splits a CR LF pair leaves a lone CR: CMinx's grammar takes it for a line ending, CMake does not
        # (a line comment runs on to the next LF) - a disagreement about line endings, not one of C06's fault classes
        return {"verdict": "out", "why": "lone carriage return"}
    invalid_escape = False
    if ftext.startswith("\\") and len(ftext) == 2 and ftext[1].isalnum() and ftext[1] not in "tnr":
        invalid_escape = not (fstart > 0 and text[fstart - 1] == "\\")
    ref_rejects = (not ok) or invalid_escape
    # the real command line: single file, and the same file inside a directory next to a healthy one
    home = os.path.join(sandbox, "home")
    os.makedirs(os.path.join(home, ".config", "cminx"), exist_ok=True)
    d = os.path.join(sandbox, "proj")
    os.makedirs(d, exist_ok=True)
    with open(os.path.join(d, "faulty.cmake"), "w", encoding="utf-8", newline="") as fh:
        fh.write(text)
    with open(os.path.join(d, "good.cmake"), "w") as fh:
        fh.write("function(ok)\nendfunction()\n")
    out1 = os.path.join(sandbox, "out1")
    exc1, _ = naming.run_main(["-o", out1, os.path.join(d, "faulty.cmake")], sandbox, home)
    page1 = os.path.exists(os.path.join(out1, "faulty.rst"))
    out2 = os.path.join(sandbox, "out2")
    # the faulty file in the top directory of a tree whose sub-directory (healthy) is visited after it
    os.makedirs(os.path.join(d, "sub"), exist_ok=True)
    with open(os.path.join(d, "sub", "fine.cmake"), "w") as fh:
        fh.write("function(ok2)\nendfunction()\n")
    extra = []
    if seed % 4 == 0:
        # every include_undocumented_* option off (a settings file): faults must be noticed all the same
        sfile = os.path.join(sandbox, "alloff.yaml")
        with open(sfile, "w") as fh:
            fh.write("input:\n" + "".join("  include_undocumented_%s: false\n" % k for k in
                     ("function", "macro", "cpp_class", "cpp_attr", "cpp_constructor", "cpp_member", "ct_add_test", "add_test",
                      "ct_add_section", "option")) + "logging:\n  version: 1\n")
        extra = ["-s", sfile]
    exc2, _ = naming.run_main(extra + ["-r", "-o", out2, d], sandbox, home)
    page2 = os.path.exists(os.path.join(out2, "faulty.rst"))
    # several inputs on one command line, the faulty one not last
    out3 = os.path.join(sandbox, "out3")
    exc3, _ = naming.run_main(extra + ["-o", out3, os.path.join(d, "faulty.cmake"), os.path.join(d, "good.cmake")], sandbox, home)
    page3 = os.path.exists(os.path.join(out3, "faulty.rst"))
    # a re-run: the output directory holds the page of an earlier, valid revision and the faulty revision arrives with
    # an older modification time (a restored backup, cp -p): it is read and rejected all the same
    exc4 = "not run"
    if seed % 3 == 0:
        out4 = os.path.join(sandbox, "out4")
        mod = os.path.join(d, "rerun.cmake")
        with open(mod, "w") as fh:
            fh.write("function(valid_revision)\nendfunction()\n")
        naming.run_main(["-o", out4, mod], sandbox, home)
        with open(mod, "w", encoding="utf-8", newline="") as fh:
            fh.write(text)
        os.utime(mod, (946684800, 946684800))
        exc4, _ = naming.run_main(["-o", out4, mod], sandbox, home)
        os.unlink(mod)
    toks, errs = real_lex(text)
    skipped = bool(errs)
    obs = {"single_file": {"failed": exc1 is not None, "exc": exc1, "page_written": page1},
           "directory": {"failed": exc2 is not None, "exc": exc2, "page_written": page2},
           "two_inputs": {"failed": exc3 is not None, "exc": exc3, "page_written": page3},
           "rerun_with_older_mtime": {"failed": exc4 is not None, "exc": exc4},
           "lexer_skipped_characters": skipped}
    lookalike = any(nm == "Unquoted_argument" and _re.match(r"^\[(=*)\[", text[a:b + 1])
                    and not _re.match(r"^\[(=*)\[.*\]\1\]$", text[a:b + 1], _re.S) for nm, a, b in toks)
    case = {"text": text, "fault": ftext, "at": fstart, "context": ctx, "cmake_parse_error": not ok, "invalid_escape": invalid_escape,
            "bracket_lookalike_unquoted": bool(lookalike)}
    model_notices = bool(beh["lexerrs"]) or not beh["parseok"]
    drift = None
    if model_notices != (exc1 is not None):
        drift = {"model_notices": model_notices, "real_fails": exc1 is not None}
    if ref_rejects:
        def status_ok(exc):
            return exc is not None and not exc.startswith("SystemExit: 0") and not exc.startswith("SystemExit: None")
        if not status_ok(exc1) or page1 or not status_ok(exc2) or page2 or not status_ok(exc3) or page3 or not status_ok(exc4):
            return {"verdict": "viol", "case": case, "expected": "error reported, non-zero status, no .rst for the faulty file",
                    "observed": obs, "why": "an invalid file is accepted or documentation is written for it", "drift": drift}
    if skipped and (page1 or page2 or page3):
        return {"verdict": "viol", "case": case, "expected": "no documentation from a view of the file with skipped characters",
                "observed": obs, "why": "the lexer skipped source characters and a page was still written", "drift": drift}
    return {"verdict": "ok" if ref_rejects else "harmless", "drift": drift, "case": case}


FAULT_STRINGS = ['"', "\\", "#[[", "#[=[", "(", ")", "zz", '"q']


# CMake parse errors that are not one of C06's fault classes (unterminated string / bracket comment, invalid escape,
# unbalanced parentheses, stray text): a missing line ending between two commands, two arguments that touch, a
# bracket comment between a command name and its parenthesis
NOT_A_C06_FAULT = ("Expected a newline", "Argument not separated from preceding token", "got bracket comment")


def name_paren_split(text):
    """CMake wants a command name and its "(" on one line; CMinx's grammar skips line endings everywhere, so
    `name NEWLINE (args)` is a command for it.  True if that layout occurs at top level AND the real lexer's tokens
    form a sentence of CMake.g4 (harness/parseh.fault_class: no stray token, parentheses balanced) - then CMake's
    'Expected "(", got newline' is about this layout and not about a bare word CMinx would have to report."""
    import parseh
    toks, errs = real_lex(text)
    if errs:
        return False
    kinds = []
    for nm, a, b in toks:
        t = text[a:b + 1]
        kinds.append("lp" if t == "(" else "rp" if t == ")" else
                     {"Identifier": "id", "Unquoted_argument": "unq", "Quoted_argument": "quo", "Bracket_argument": "brk",
                      "Docstring": "doc", "Module_docstring": "mdoc"}.get(nm, "other"))
    if "other" in kinds or parseh.fault_class(kinds) is not None or kinds.count("lp") != kinds.count("rp"):
        return False
    depth = 0
    for j, k in enumerate(kinds):
        if depth == 0 and k == "id" and j + 1 < len(kinds) and kinds[j + 1] == "lp" \
                and _re.search(r"[\r\n]", text[toks[j][2] + 1:toks[j + 1][1]]):
            return True
        depth += 1 if k == "lp" else -1 if k == "rp" else 0
    return False


def c06_pair(beh, seed, sandbox):
    """two faults: the TLC-injected one plus a second one at a seeded position; the reference is the cmake binary only"""
    import naming
    rng = random.Random(seed)
    text, offs = concretize(beh["text"], seed)
    clean_syms = beh["text"][:beh["fault"]["pos"] - 1] + beh["text"][beh["fault"]["pos"] - 1 + len(beh["fault"]["t"]):]
    clean, _ = concretize(clean_syms, seed)
    p2 = rng.randint(0, len(text))
    if fault_context(text, p2) in ("comment", "bracket") if not real_lex(text)[1] else False:
        return {"verdict": "out"}
    f2 = rng.choice(FAULT_STRINGS)
    text2 = text[:p2] + f2 + text[p2:]
    os.makedirs(sandbox, exist_ok=True)
    ok, cm_err = cmake_accepts(text2, sandbox, "p")
    if ok:
        return {"verdict": "harmless"}
    if any(m in cm_err for m in NOT_A_C06_FAULT) or _re.search(r"\\[\r\n]", text2) or _re.search(r"\r(?!\n)", text2):
        # two commands on one line (CMake wants a line ending after every command; not one of C06's fault classes:
        # parentheses balanced, no stray text) and backslash-newline (manual and binary disagree) are not judged
        return {"verdict": "out"}
    home = os.path.join(sandbox, "home")
    os.makedirs(os.path.join(home, ".config", "cminx"), exist_ok=True)
    fpath = os.path.join(sandbox, "faulty.cmake")
    with open(fpath, "w", encoding="utf-8", newline="") as fh:
        fh.write(text2)
    out1 = os.path.join(sandbox, "out1")
    exc1, _ = naming.run_main(["-o", out1, fpath], sandbox, home)
    page1 = os.path.exists(os.path.join(out1, "faulty.rst"))
    toks, errs = real_lex(text2)
    lookalike = any(nm == "Unquoted_argument" and _re.match(r"^\[(=*)\[", text2[a:b + 1])
                    and not _re.match(r"^\[(=*)\[.*\]\1\]$", text2[a:b + 1], _re.S) for nm, a, b in toks)
    failed = exc1 is not None and not exc1.startswith("SystemExit: 0") and not exc1.startswith("SystemExit: None")
    if (not failed or page1) and 'Expected "(", got newline' in cm_err and name_paren_split(text2):
        return {"verdict": "out"}
    if not failed or page1:
        case = {"text": text2, "fault": [beh["fault"]["t"], f2], "at": p2, "context": "pair", "cmake_parse_error": True,
                "invalid_escape": False, "bracket_lookalike_unquoted": bool(lookalike)}
        return {"verdict": "viol", "case": case, "expected": "error reported, non-zero status, no .rst for the faulty file",
                "observed": {"single_file": {"failed": failed, "exc": exc1, "page_written": page1}, "lexer_skipped_characters": bool(errs)},
                "why": "a file with two injected faults that CMake rejects is accepted or documented", "drift": None}
    return {"verdict": "ok", "case": None, "drift": None}


def _chunk06(args):
    chunk, seed, base = args
    import subprocess
    out = []
    for n, beh in chunk:
        sb = os.path.join(base, "c%d_%d" % (os.getpid(), n))
        try:
            r = c06_one(beh, seed * 1000003 + n, sb)
            if r["verdict"] != "viol" and n % 3 == 0:
                r2 = c06_pair(beh, seed * 1000003 + n, sb + "_pair")
                if r2["verdict"] == "viol":
                    r = r2
                r["pair"] = r2["verdict"]
            out.append((n, r))
        finally:
            subprocess.run(["rm", "-rf", sb + "_pair"])
            subprocess.run(["rm", "-rf", sb])
    return out


def replay_c06(run, behs, seed, limit=None):
    import subprocess
    behs = [b for b in behs if b["fault"]["pos"] != 0]
    if limit and len(behs) > limit:
        behs = random.Random(seed).sample(behs, limit)
        run.exhaustive = False
    base = tempfile.mkdtemp(prefix="verif_c06_", dir="/dev/shm" if os.path.isdir("/dev/shm") else None)
    stats = run.notes.setdefault("fault_verdicts", {"ok": 0, "harmless": 0, "out": 0, "viol": 0})
    try:
        items = list(enumerate(behs))
        chunks = [(items[i::lib.NCPU * 4], seed, base) for i in range(lib.NCPU * 4)]
        chunks = [c for c in chunks if c[0]]
        with ProcessPoolExecutor(max_workers=lib.NCPU, initializer=_init, initargs=(lib.CMINX_SRC,)) as ex:
            for part in ex.map(_chunk06, chunks):
                for n, r in part:
                    beh = behs[n]
                    run.behaviours += 1
                    stats[r["verdict"]] += 1
                    if "pair" in r:
                        stats["pairs_" + r["pair"]] = stats.get("pairs_" + r["pair"], 0) + 1
                    if r["verdict"] != "out":
                        run.count("".join(beh["text"]) + "|%d" % beh["fault"]["pos"])
                    if r["verdict"] == "viol":
                        c = r["case"]
                        c["features"] = {"fault": c["fault"], "context": c["context"], "cmake_parse_error": c["cmake_parse_error"],
                                         "invalid_escape": c["invalid_escape"], "bracket_lookalike_unquoted": c["bracket_lookalike_unquoted"],
                                         "lexer_error_only": bool(r["observed"]["lexer_skipped_characters"])}
                        run.violation(c, r["expected"], r["observed"], r["why"])
                    elif r.get("drift"):
                        run.drifted({"text": r["case"]["text"], "drift": r["drift"]})
        if behs:
            b = behs[len(behs) // 2]
            run.sample({"file_as_class_symbols": "".join(b["text"]), "fault": b["fault"]})
    finally:
        subprocess.run(["rm", "-rf", base])


# ---------------------------------------------------------------- CMinx.tla: the pipeline as one machine
FILE_BODY = {"ok": "#[[[\n# doc of {n}\n#]]\nfunction({n} a)\nendfunction()\n",
             "lexfault": "#[[[\n# doc of {n}\n#]]\nfunction({n} a \\q)\nendfunction()\n",
             "parsefault": "#[[[\n# doc of {n}\n#]]\nfunction({n} a)\nendfunction()\nmessage(unclosed\n",
             "parsefault_swallowed": "#[[[\n# doc of {n}\n#]]\nfunction({n} a)\nendfunction()\nstray_word\n"}


def pipeline_case(beh, sandbox):
    import naming
    d = os.path.join(sandbox, "proj")
    os.makedirs(d)
    home = os.path.join(sandbox, "home")
    os.makedirs(os.path.join(home, ".config", "cminx"))
    names = []
    for j, kind in enumerate(beh["files"], 1):
        nm = "f%02d" % j
        names.append(nm)
        with open(os.path.join(d, nm + ".cmake"), "w") as fh:
            fh.write(FILE_BODY[kind].format(n=nm))
    out = os.path.join(sandbox, "out")
    if beh["mode"] == "samename":
        # every input is <proj>/dNN/mod.cmake: all of them are written to <out>/mod.rst, the last one written survives
        inputs = []
        for j, kind in enumerate(beh["files"], 1):
            os.makedirs(os.path.join(d, "d%02d" % j))
            inputs.append(os.path.join(d, "d%02d" % j, "mod.cmake"))
            os.rename(os.path.join(d, names[j - 1] + ".cmake"), inputs[-1])
        exc, _ = naming.run_main(["-o", out] + inputs, sandbox, home)
        failed = exc is not None and not exc.startswith("SystemExit: 0") and not exc.startswith("SystemExit: None")
        page = os.path.join(out, "mod.rst")
        text = open(page, encoding="utf-8").read() if os.path.exists(page) else ""
        written = sorted(j for j, n in enumerate(names, 1) if "doc of " + n in text)
        return {"failed": failed, "written": written, "index": os.path.exists(os.path.join(out, "index.rst")), "exc": exc}
    if beh["mode"] == "directory":
        exc, _ = naming.run_main(["-o", out, d], sandbox, home)
    else:
        exc, _ = naming.run_main(["-o", out] + [os.path.join(d, n + ".cmake") for n in names], sandbox, home)
    failed = exc is not None and not exc.startswith("SystemExit: 0") and not exc.startswith("SystemExit: None")
    written = sorted(j for j, n in enumerate(names, 1) if os.path.exists(os.path.join(out, n + ".rst")))
    return {"failed": failed, "written": written, "index": os.path.exists(os.path.join(out, "index.rst")), "exc": exc}


def _chunk_pipe(args):
    import subprocess
    chunk, base = args
    out = []
    for n, beh in chunk:
        sb = os.path.join(base, "p%d_%d" % (os.getpid(), n))
        os.makedirs(sb)
        try:
            out.append((n, pipeline_case(beh, sb)))
        finally:
            subprocess.run(["rm", "-rf", sb])
    return out


def replay_pipeline(run, behs):
    import subprocess
    base = tempfile.mkdtemp(prefix="verif_pipe_", dir="/dev/shm" if os.path.isdir("/dev/shm") else None)
    try:
        items = list(enumerate(behs))
        chunks = [(items[i::lib.NCPU * 2], base) for i in range(lib.NCPU * 2)]
        chunks = [c for c in chunks if c[0]]
        with ProcessPoolExecutor(max_workers=lib.NCPU, initializer=_init, initargs=(lib.CMINX_SRC,)) as ex:
            for part in ex.map(_chunk_pipe, chunks):
                for n, obs in part:
                    beh = behs[n]
                    run.behaviours += 1
                    run.count("pipeline:" + json.dumps([beh["mode"], beh["files"]]))
                    faulty = [j for j, k in enumerate(beh["files"], 1) if k != "ok"]
                    case = {"mode": beh["mode"], "files": beh["files"], "features": {"pipeline_model": True}}
                    if faulty and (not obs["failed"] or any(j in obs["written"] for j in faulty)):
                        run.violation(case, {"failed": True, "no_page_for": faulty}, obs,
                                      "a run over a faulty file does not fail, or writes a page for the faulty file")
                    elif not faulty and (obs["failed"] or obs["written"] != (list(range(1, len(beh["files"]) + 1)) if beh["mode"] != "samename"
                                                                             else [len(beh["files"])])):
                        run.violation(case, {"failed": False, "written": list(range(1, len(beh["files"]) + 1))}, obs,
                                      "a run over valid files fails or does not write every page")
                    elif (obs["written"] != (sorted(beh["written"]) if beh["mode"] != "samename" else sorted(beh["written"])[-1:])
                          or obs["failed"] != (beh["status"] == "failed")):
                        run.drifted({"pipeline": case, "model": {"written": beh["written"], "status": beh["status"]}, "observed": obs})
        if behs:
            run.sample({"pipeline_run": behs[len(behs) // 2]})
    finally:
        subprocess.run(["rm", "-rf", base])


# ---------------------------------------------------------------- ground truth for the generator: cmake --trace
def cmake_trace_check(run, behs, seed, limit=300):
    """Do CMake's own argument boundaries agree with the ones the generator (CMakeGen.tla) claims by construction?
    Every command name is replaced by a no-op function and the files are run through `cmake --trace`; a disagreement
    is a bug of the SPECIFICATION's reading of cmake-language(7) and is reported as drift, never as a violation."""
    import subprocess
    behs = [b for b in behs if b["fault"]["pos"] == 0 and "\r" not in b["text"]]
    if len(behs) > limit:
        behs = random.Random(seed).sample(behs, limit)
    tmp = tempfile.mkdtemp(prefix="verif_cmtrace_")
    try:
        parts = ["function(vf)\nendfunction()\n"]
        expected = []
        for n, beh in enumerate(behs):
            text, offs = concretize(beh["text"], seed * 1000003 + n)
            cmds = []
            for c in sorted(beh["cmds"], key=lambda c: -c["from"]):
                s0, e0 = offs[c["from"] - 1], offs[c["from"] - 1 + len(c["name"])]
                text = text[:s0] + "vf" + text[e0:]
            text2, offs2 = concretize(beh["text"], seed * 1000003 + n)
            for c in beh["cmds"]:
                args = []
                for a in c["args"]:
                    t = text2[offs2[a["from"] - 1]:offs2[a["from"] - 1 + len(a["t"])]]
                    if a["k"] in ("(", ")"):
                        args.append(a["k"])
                    elif t.startswith('"'):
                        args.append(t[1:-1].replace("\\\n", ""))
                    elif _re.match(r"^\[(=*)\[", t):
                        m = _re.match(r"^\[(=*)\[", t)
                        body = t[len(m.group(0)):-len(m.group(0))]
                        args.append(body[1:] if body.startswith("\n") else body)
                    else:
                        args.append(t)
                cmds.append(args)
            expected.append(cmds)
            parts.append("vf(__file_%d__)\n" % n + text + "\n")
        script = os.path.join(tmp, "all.cmake")
        with open(script, "w", encoding="utf-8", newline="") as fh:
            fh.write("".join(parts))
        out = os.path.join(tmp, "trace.json")
        r = subprocess.run(["cmake", "--trace-format=json-v1", "--trace-redirect=" + out, "-P", script],
                           stdout=subprocess.PIPE, stderr=subprocess.PIPE, timeout=600)
        got = {}
        cur = None
        if os.path.exists(out):
            for line in open(out, encoding="utf-8", errors="replace"):
                try:
                    e = json.loads(line)
                except Exception:
                    continue
                if e.get("cmd") != "vf":
                    continue
                a = e.get("args", [])
                m = _re.match(r"^__file_(\d+)__$", a[0]) if len(a) == 1 else None
                if m:
                    cur = int(m.group(1))
                    got[cur] = []
                elif cur is not None:
                    got[cur].append(a)
        st = run.notes.setdefault("cmake_trace_ground_truth", {"files": 0, "agree": 0, "disagree": 0, "cmake_failed": r.returncode != 0})
        for n, cmds in enumerate(expected):
            st["files"] += 1
            if got.get(n) == cmds:
                st["agree"] += 1
            else:
                st["disagree"] += 1
                if st["disagree"] <= 3:
                    run.drifted({"specification_vs_cmake": "argument boundaries claimed by CMakeGen differ from cmake --trace",
                                 "generator": cmds, "cmake": got.get(n)})
    finally:
        import shutil
        shutil.rmtree(tmp, ignore_errors=True)
