"""Binding for CMakeParse.tla: every token stream TLC generates (viable prefixes, every way to leave the language,
every complete file up to MaxTokens) is written out as CMake text and run through the real Documenter; the outcome
(accepted / syntax error) and the listener calls the aggregator receives are compared with the model.

  C05 side: a token stream of the language must be accepted, and the aggregator must see every command with the
            argument boundaries the token stream has (direct arguments, nested groups).
  C06 side: a token stream outside the language (unbalanced parentheses, stray tokens between commands, a command
            name without parenthesis) must make Documenter.process raise.
  Other differences (event bookkeeping the properties do not speak about) are reported as model drift.
"""
import contextlib
import io
import json
import logging
import os
import random
from concurrent.futures import ProcessPoolExecutor

import lib

WORDS = {"unq": ["-u", "a-b", "${v}", "x.y", "1"], "quo": ['"q"', '"a b"', '""', '"(x"'], "brk": ["[[b]]", "[=[ ) ]=]"],
         "id": ["n", "abc", "A_1"]}


def concretize(toks, seed):
    """token kinds -> (text, token texts).  Top-level items on their own lines (CMake wants one command per line),
    arguments separated by a blank; the layout is varied with the seed."""
    rng = random.Random(seed)
    texts, out, depth = [], [], 0
    for i, k in enumerate(toks):
        if k == "mdoc":
            t = "#[[[ @module m%d\n# module text\n#]]" % i
        elif k == "doc":
            t = "#[[[\n# doc %d\n#]]" % i
        elif k == "lp":
            t = "("
        elif k == "rp":
            t = ")"
        elif k == "id":
            t = rng.choice(WORDS["id"]) + "%d" % i
        else:
            t = rng.choice(WORDS[k])
        texts.append(t)
        if i:
            if depth == 0 and k != "lp":
                out.append("\n")
            elif depth == 0 and k == "lp":
                out.append(rng.choice(["", " "]))
            else:
                out.append(rng.choice([" ", "\n  ", "\t"]) if (toks[i - 1] != "lp" and k != "rp") or rng.random() < 0.5 else "")
        out.append(t)
        depth += 1 if k == "lp" else -1 if k == "rp" else 0
        depth = max(depth, 0)
    return "".join(out) + "\n", texts


def observe(text):
    """Run the real Documenter on the text; returns {"status", "exc", "events"}; events as the aggregator's listener
    methods were called (wrapped on the instance; absent methods simply record nothing)."""
    import agg
    from cminx.documenter import Documenter
    from cminx.parser.CMakeParser import CMakeParser
    path = agg._tmpfile()
    with open(path, "w", encoding="utf-8", newline="") as fh:
        fh.write(text)
    events = []
    wrapped = 0
    logging.disable(logging.CRITICAL)
    err = io.StringIO()
    try:
        with contextlib.redirect_stderr(err), contextlib.redirect_stdout(io.StringIO()):
            try:
                d = Documenter(path, "t", "m", agg.make_settings())
                a = getattr(d, "aggregator", None)

                def wrap(name, rec):
                    nonlocal wrapped
                    orig = getattr(a, name, None)
                    if orig is None:
                        return
                    wrapped += 1

                    def w(ctx, *args, **kw):
                        try:
                            rec(ctx)
                        except Exception as e:  # recorder trouble is not the code's fault
                            events.append({"e": "recorder-error", "msg": repr(e)})
                        return orig(ctx, *args, **kw)
                    setattr(a, name, w)

                def r_module(ctx):
                    events.append({"e": "module", "at": ctx.start.tokenIndex + 1})

                def r_doccmd(ctx):
                    events.append({"e": "doccmd", "doc": ctx.bracket_doccomment().start.tokenIndex + 1,
                                   "name": ctx.command_invocation().start.tokenIndex + 1})

                def r_cmd(ctx):
                    events.append({"e": "cmd", "name": ctx.start.tokenIndex + 1,
                                   "documented": isinstance(ctx.parentCtx, CMakeParser.Documented_commandContext),
                                   "direct": [x.start.tokenIndex + 1 for x in ctx.single_argument()],
                                   "groups": len(ctx.compound_argument()),
                                   "ntok": ctx.stop.tokenIndex - ctx.start.tokenIndex - 2})

                def r_doc(ctx):
                    if isinstance(ctx.parentCtx, CMakeParser.Cmake_fileContext):
                        events.append({"e": "dangling", "at": ctx.start.tokenIndex + 1})
                if a is not None:
                    wrap("enterDocumented_module", r_module)
                    wrap("enterDocumented_command", r_doccmd)
                    wrap("enterCommand_invocation", r_cmd)
                    wrap("enterBracket_doccomment", r_doc)
                d.process()
                return {"status": "accept", "exc": None, "events": events, "wrapped": wrapped}
            except BaseException as e:
                return {"status": "error", "exc": "%s: %s" % (type(e).__name__, str(e)[:160]), "events": events, "wrapped": wrapped}
    finally:
        logging.disable(logging.NOTSET)


def _init(src):
    lib.CMINX_SRC = src
    lib.use_repo_sources()


def _chunk(args):
    items, seed = args
    out = []
    for n, beh in items:
        text, texts = concretize(beh["toks"], seed * 7919 + n)
        out.append((n, text, observe(text)))
    return out


def fault_class(toks):
    """why a token stream is outside the language, in C06's words (None: inside, or a reason C06 does not list)"""
    depth, prev_top = 0, None
    for i, k in enumerate(toks):
        if k == "mdoc" and i > 0:
            return None           # '@module' docstring not first: a CMinx rule, not one of C06's fault classes
        if depth == 0:
            if k == "lp" and prev_top != "id":
                return "unbalanced parentheses"       # a parenthesis no command opens
            if k == "rp":
                return "unbalanced parentheses"
            if k in ("unq", "quo", "brk"):
                return "stray text between commands"
            if prev_top == "id" and k != "lp":
                return "stray text between commands"  # a bare word
        elif k in ("doc", "mdoc"):
            return None           # a doccomment inside an argument list (the lexer would not produce it as a comment)
        prev_top = k if depth == 0 else None
        depth += 1 if k == "lp" else -1 if k == "rp" else 0
    if depth > 0:
        return "unbalanced parentheses"
    if prev_top == "id":
        return "stray text between commands"
    return None


def replay(run, pid, behs, seed, limit=None):
    """pid C05: judge the streams of the language; pid C06: judge the streams outside it."""
    behs = [b for b in behs if (b["wf"] if pid == "C05" else not b["wf"])]
    if limit and len(behs) > limit:
        behs = random.Random(seed).sample(behs, limit)
    items = list(enumerate(behs))
    chunks = [(items[i::lib.NCPU * 2], seed) for i in range(lib.NCPU * 2)]
    chunks = [c for c in chunks if c[0]]
    nowrap = 0
    with ProcessPoolExecutor(max_workers=lib.NCPU, initializer=_init, initargs=(lib.CMINX_SRC,)) as ex:
        for part in ex.map(_chunk, chunks):
            for n, text, obs in part:
                beh = behs[n]
                run.behaviours += 1
                run.count("parse:" + "".join(k[0] if k != "mdoc" else "M" for k in beh["toks"]) + "|" + beh["status"])
                case = {"tokens": beh["toks"], "source": text, "features": {"parser_model": True}}
                if pid == "C05":
                    if obs["status"] != "accept":
                        run.violation(case, "accepted", obs["exc"], "a valid token stream (commands, doccomments, nested parentheses) is rejected")
                        continue
                    if obs["wrapped"] == 0:
                        nowrap += 1
                        continue
                    want = [e for e in beh["events"] if e["e"] == "cmd"]
                    got = [e for e in obs["events"] if e["e"] == "cmd"]
                    key = lambda e: (e["name"], list(e["direct"]), e["groups"], e["ntok"])  # noqa: E731
                    if [key(e) for e in got] != [key(e) for e in want]:
                        run.violation(case, want, got, "the commands handed to the aggregator do not have the token stream's argument boundaries")
                    elif obs["events"] != beh["events"]:
                        run.drifted({"parser_events": case, "model": beh["events"], "observed": obs["events"]})
                else:
                    why = fault_class(beh["toks"])
                    if obs["status"] == "accept":
                        if why is not None:
                            run.violation(case, "a syntax error", "accepted; events %s" % json.dumps(obs["events"])[:300],
                                          "%s: the file is documented instead of being reported" % why)
                        else:
                            run.drifted({"parser_rejects_in_model_only": case})
    if nowrap:
        run.drifted({"parser_events_unobservable": "the aggregator has none of the enter* listener methods", "cases": nowrap})
    if behs:
        run.sample({"token_stream": behs[len(behs) // 2]["toks"], "model_status": behs[len(behs) // 2]["status"]})


# ---------------------------------------------------------------- binding B: recorded parses validated by TLC (TraceParse.tla)
SYNTAX_EXCEPTIONS = {"CMakeSyntaxError", "RecognitionException", "InputMismatchException", "NoViableAltException",
                     "FailedPredicateException", "LexerNoViableAltException", "ParseCancellationException"}
KIND = {"Identifier": "id", "Unquoted_argument": "unq", "Quoted_argument": "quo", "Bracket_argument": "brk",
        "Docstring": "doc", "Module_docstring": "mdoc"}


def trace_of(ident, text):
    """token kinds of the real lexer + outcome and listener calls of the real Documenter; None if the lexer itself
    reports an error (then the file never reaches the parser in one piece)"""
    import lexh
    toks, errs = lexh.real_lex(text)
    if errs:
        return None
    kinds = []
    for nm, a, b in toks:
        t = text[a:b + 1]
        kinds.append("lp" if t == "(" else "rp" if t == ")" else KIND.get(nm, "other"))
    if "other" in kinds:
        return None
    obs = observe(text)
    syntax = obs["exc"] is not None and obs["exc"].split(":")[0] in SYNTAX_EXCEPTIONS
    if obs["status"] == "error" and not syntax:
        # the aggregator raised while the tree was walked (e.g. an end command without a beginning): the parser had
        # accepted the file; the listener calls stop where the exception was raised and are not compared
        return {"id": ident, "toks": kinds, "status": "accept", "events": [], "observable": False, "exc": obs["exc"]}
    return {"id": ident, "toks": kinds, "status": obs["status"], "events": obs["events"] if obs["status"] == "accept" else [],
            "observable": obs["wrapped"] > 0, "exc": obs["exc"]}


def _trace_chunk(items):
    out = []
    for ident, text in items:
        try:
            out.append(trace_of(ident, text))
        except Exception as e:
            out.append({"id": ident, "harness_error": repr(e)})
    return out


def sources(seed, n_random, n_corpus, max_tokens=1500):
    """(id, text) of files TLC did not choose: fixtures, random modules, mutilated random modules, corpus modules"""
    import glob
    import aggtrace
    import lexh
    rng = random.Random(seed)
    out = []
    for f in sorted(glob.glob(lib.REPO + "/tests/test_samples/*.cmake") + glob.glob(lib.REPO + "/tests/examples/**/*.cmake", recursive=True)):
        try:
            out.append((os.path.relpath(f, lib.REPO), open(f, encoding="utf-8").read()))
        except Exception:
            pass
    for k in range(n_random):
        src = aggtrace.gen_program(rng, rng.randint(3, 30), in_domain=(k % 2 == 0))
        out.append(("random-%d" % k, src))
        # the same module with one token removed or doubled: mostly outside the language
        words = src.replace("(", " ( ").replace(")", " ) ").split(" ")
        j = rng.randrange(len(words))
        out.append(("random-%d-cut" % k, " ".join(words[:j] + words[j + 1:])))
        j = rng.randrange(len(words))
        out.append(("random-%d-dup" % k, " ".join(words[:j] + [words[j]] + words[j:])))
    for f in lexh.corpus_files(seed, n_corpus):
        try:
            text = open(f, encoding="utf-8").read()
        except Exception:
            continue
        if len(text) < max_tokens * 6:
            out.append((os.path.relpath(f, lexh.CORPUS), text))
    return out


def validate(run, seed, n_random, n_corpus, batch=300):
    import shutil
    import tempfile
    srcs = sources(seed, n_random, n_corpus)
    chunks = [srcs[i::lib.NCPU * 2] for i in range(lib.NCPU * 2)]
    with ProcessPoolExecutor(max_workers=lib.NCPU, initializer=_init, initargs=(lib.CMINX_SRC,)) as ex:
        traces = [t for part in ex.map(_trace_chunk, [c for c in chunks if c]) for t in part if t is not None]
    bad = [t for t in traces if "harness_error" in t]
    if bad:
        raise lib.MachineryError("parse trace recorder failed: %r" % (bad[0],))
    traces.sort(key=lambda t: t["id"])
    # the binding must bite: a copy of a recorded trace with one field changed has to be rejected by TLC
    donor = next((t for t in traces if t["status"] == "accept" and t["observable"] and any(e["e"] == "cmd" for e in t["events"])), None)
    if donor is not None:
        bad_ev = json.loads(json.dumps(donor["events"]))
        next(e for e in bad_ev if e["e"] == "cmd")["groups"] += 1
        traces.insert(0, dict(donor, id="~selftest-corrupted-copy", events=bad_ev))
    st = run.notes.setdefault("parser_traces", {"recorded": 0, "accepted_files": 0, "rejected_files": 0, "validated": 0, "model_disagrees": 0, "tokens": 0})
    st["recorded"] += len(traces)
    st["accepted_files"] += sum(1 for t in traces if t["status"] == "accept")
    st["rejected_files"] += sum(1 for t in traces if t["status"] != "accept")
    for k in range(0, len(traces), batch):
        part = traces[k:k + batch]
        tmp = tempfile.mkdtemp(prefix="verif_parsetrace_")
        path = os.path.join(tmp, "batch.json")
        with open(path, "w") as fh:
            json.dump({"traces": [{k: v for k, v in t.items() if k != "exc"} for t in part]}, fh)
        try:
            res = lib.run_tlc("TraceParse", "CONSTANT Dev <- NoDevT\nCONSTANT MaxTokens = 10000000\nINIT TInit\nNEXT TNext\n",
                              env={"TRACE_FILE": path}, tags=("END", "REJ"), coverage=False)
        finally:
            shutil.rmtree(tmp, ignore_errors=True)
        ends, rejs = res.lines.get("END", []), res.lines.get("REJ", [])
        if len(ends) + len(rejs) != len(part):
            raise lib.MachineryError("parse trace validation lost traces: %d verdicts for %d traces" % (len(ends) + len(rejs), len(part)))
        run.states += res.distinct
        run.transitions += res.generated
        run.tlc_runs.append({"config": "TraceParse", "distinct_states": res.distinct, "states_generated": res.generated,
                             "wall_s": round(res.wall, 1), "traces": len(part)})
        run.traces += len(ends)
        st["validated"] += len(ends)
        st["model_disagrees"] += len(rejs)
        st["tokens"] += sum(e["tokens"] for e in ends)
        for e in ends:
            if not e["wellformed"] and e["model_status"] == "accept":
                raise lib.MachineryError("TraceParse: event rules do not hold on an accepted trace of the model: %r" % (e,))
        byid = {t["id"]: t for t in part}
        if any(e["id"] == "~selftest-corrupted-copy" for e in ends):
            raise lib.MachineryError("TraceParse accepted a trace with a corrupted listener event: the binding does not bite")
        for r in rejs:
            if r["id"] == "~selftest-corrupted-copy":
                st["corrupted_copy_rejected"] = True
                st["model_disagrees"] -= 1
                continue
            t = byid.get(r["id"], {})
            # the generated parser is the reference for the MODEL here: a disagreement is drift of the specification
            run.drifted({"parser_trace": r["id"], "rejection": r, "exception": t.get("exc")})
