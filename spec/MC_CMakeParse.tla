--------------------------- MODULE MC_CMakeParse ---------------------------
EXTENDS CMakeParse
NoDev == {}
ModuleAnywhere == {"D_ModuleAnywhere"}
=============================================================================
