"""Subprocess driver: run cminx.main(argv) from the source tree under test, with an imposed directory-listing order."""
import os
import random
import sys

src = os.environ["VERIF_CMINX_SRC"]
sys.path.insert(0, src)
import warnings  # noqa: E402
warnings.filterwarnings("ignore")
perm = os.environ.get("VERIF_PERM", "sorted")
_real_walk = os.walk


def walk(top, topdown=True, onerror=None, followlinks=False):
    for root, dirs, files in _real_walk(top, topdown, onerror, followlinks):
        for lst in (dirs, files):
            if perm == "sorted":
                lst.sort()
            elif perm == "reversed":
                lst.sort(reverse=True)
            else:
                lst.sort()
                random.Random(len(root)).shuffle(lst)
        yield root, dirs, files


os.walk = walk
import cminx  # noqa: E402
got = os.path.dirname(os.path.dirname(os.path.abspath(cminx.__file__)))
if os.path.realpath(got) != os.path.realpath(src):
    sys.stderr.write("driver: cminx imported from %s, expected %s\n" % (got, src))
    sys.exit(97)
# the packaged entry script (src/main.py: what PyInstaller wraps and cminx_gen_rst() runs) is executed where it
# exists, so that whatever it does to the arguments before cminx.main() is part of what is observed
mainpy = os.path.join(src, "main.py")
args = sys.argv[1:]
for _ in range(int(os.environ.get("VERIF_REPEAT", "1"))):
    if os.path.isfile(mainpy) and os.environ.get("VERIF_ENTRY", "script") == "script":
        import runpy
        sys.argv = [mainpy] + list(args)
        runpy.run_path(mainpy, run_name="__main__")
    else:
        cminx.main(args)
