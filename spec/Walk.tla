-------------------------------- MODULE Walk --------------------------------
(***************************************************************************)
(* cminx.document(): the directory walk of src/cminx/__init__.py (Impl)    *)
(* next to what C13 C14 C15 (and the naming part of C12, the effect part   *)
(* of C18) demand (Req).                                                   *)
(*                                                                         *)
(* The file system is part of the state: a function from directory paths   *)
(* (sequences of names, <<>> = the input directory) to [dirs, files]; the  *)
(* run creates directories and files in it when the output directory lies  *)
(* inside the input tree, and later listings see them.  The order in which *)
(* the operating system lists a directory is an environment choice: every  *)
(* VisitDir picks a permutation.                                           *)
(*                                                                         *)
(* String functions of the library are inputs: a name is a record          *)
(*   [n, lc: n.endswith(".cmake"), ci: n.lower().endswith(".cmake"),       *)
(*    le: n.split(".")[-1].lower() = "cmake", stem: ".".join(n.split(".")  *)
(*    [:-1]), rk: rank in sorted() order]                                  *)
(* and a pattern is [comp: names it matches as a path component,           *)
(*   dironly: trailing slash, abs: <<TRUE, path>> for an absolute path,    *)
(*   parent: "" or the directory name of a "**/parent/glob" pattern].      *)
(***************************************************************************)
EXTENDS Integers, Sequences, FiniteSets, TLC, Json, SequencesExt

CONSTANTS Dev,          \* named deviations of the code from Req that Impl reproduces
          Trees,        \* set of initial input trees
          PatternSets,  \* set of pattern sets
          OutKinds,     \* subset of {"none", "outside", "top", "sub"}: where the output directory lies
          OutSub,       \* path (relative to the input directory) of the output directory for kind "sub"/"top"
          RecChoices, AutoChoices, SepChoices,
          LinkNames,    \* names of the sub-directories that are symbolic links (os.walk lists them, and only descends with followlinks)
          MaxWalkDepth  \* bound beyond which the walk is declared divergent

VARIABLES tree0,   \* the input tree when the run starts
          cfg,     \* [pats, recursive, auto, out]
          fs,      \* current file system below the input directory
          pc,      \* "start" | "walk" | "done"
          stack,   \* directories os.walk will visit next (depth first)
          visited, \* sequence of directories visited (listed)
          scanned, \* set of directories listed by os.scandir during auto-exclusion
          effects, \* sequence of effect records: index / page written, page printed
          outcome, \* "" | "ok" | "excluded" | "diverges"
          hist     \* history variable: the listing order chosen at every visit (hidden by VIEW)
vars == <<tree0, cfg, fs, pc, stack, visited, scanned, effects, outcome, hist>>

\* ---------------------------------------------------------------- helpers
SeqRange(s) == {s[j] : j \in 1..Len(s)}
IsPrefix2(p, q) == Len(p) <= Len(q) /\ SubSeq(q, 1, Len(p)) = p
Perms(S) == {s \in [1..Cardinality(S) -> S] : \A x \in S : \E j \in 1..Cardinality(S) : s[j] = x}
SortNames(S) == SortSeq(SetToSeq(S), LAMBDA a, b : a.rk < b.rk)
SortSeqNames(s) == SortSeq(s, LAMBDA a, b : a.rk < b.rk)
Names(s) == [j \in 1..Len(s) |-> s[j].n]
Dir(f, p) == IF p \in DOMAIN f THEN f[p] ELSE [dirs |-> {}, files |-> {}]
RstName(stem) == [n |-> stem \o ".rst", lc |-> FALSE, ci |-> FALSE, le |-> FALSE, stem |-> stem, rk |-> 99]
IndexRst == RstName("index")

\* ---------------------------------------------------------------- gitignore matching (Req and Impl share it:
\* pathspec is a library; binding B checks this reading of it against every observed match_file call)
MatchOne(p, path, isDir) ==
  IF p.abs[1] THEN IsPrefix2(p.abs[2], path)
  ELSE IF p.parent # "" THEN   \* "**/parent/glob": an entry matching glob directly below a directory called parent (and all below it)
       \E j \in 1..(Len(path) - 1) : path[j].n = p.parent /\ path[j + 1].n \in p.comp
  ELSE \E j \in 1..Len(path) : path[j].n \in p.comp /\ (p.dironly => (j < Len(path) \/ isDir))
Match(pats, path, isDir) == \E p \in pats : MatchOne(p, path, isDir)

IsLink(s) == s.n \in LinkNames
HasLink(t) == \E p \in DOMAIN t : \E s \in t[p].dirs : IsLink(s)

\* ---------------------------------------------------------------- Req: what is processed, over the initial tree
HasCmake(t, pats, D) == \E f \in Dir(t, D).files : f.lc /\ ~Match(pats, Append(D, f), FALSE)
RECURSIVE ProcDirsFrom(_, _, _)
ProcDirsFrom(t, c, D) ==
  {D} \cup (IF c.recursive
            THEN UNION {ProcDirsFrom(t, c, Append(D, s)) :
                          s \in {s \in Dir(t, D).dirs : /\ ~Match(c.pats, Append(D, s), TRUE)
                                                        /\ (IsLink(s) => c.follow)                          \* a linked directory is processed only if links are followed
                                                        /\ ~(c.out.inside /\ Append(D, s) = c.out.path)   \* the output directory is never input
                                                        /\ (c.auto => HasCmake(t, c.pats, Append(D, s)))}}
            ELSE {})
ProcDirs(t, c) == IF Match(c.pats, <<>>, TRUE) THEN {} ELSE ProcDirsFrom(t, c, <<>>)
ProcFiles(t, c, D) == {f \in Dir(t, D).files : f.ci /\ ~Match(c.pats, Append(D, f), FALSE)}
ProcSubdirs(t, c, D) == {s \in Dir(t, D).dirs : Append(D, s) \in ProcDirs(t, c)}

\* domain of C13/C14/C15 (the quantifier's carve-outs)
InDomain(t, c) ==
  /\ c.auto => HasCmake(t, c.pats, <<>>) \/ Match(c.pats, <<>>, TRUE)
  \* where auto-exclusion applies, mixed-case extensions sit next to a lower-case .cmake file
  /\ c.auto => \A D \in DOMAIN t : (\E f \in ProcFiles(t, c, D) : TRUE) => HasCmake(t, c.pats, D)
  \* (the output directory may exist already - e.g. from an earlier run; it is not input)
  /\ TRUE

\* ---------------------------------------------------------------- Impl: one os.walk iteration
\* for x in list: if P(x): list.remove(x)   -- the element after a removed one is never tested
PruneSkip(s, P(_)) ==
  LET F[j \in 0..Len(s)] ==   \* F[j] = <<kept so far, skipNext>> after looking at position j of the ORIGINAL list
        IF j = 0 THEN <<<<>>, FALSE>>
        ELSE LET prev == F[j-1] IN
             IF prev[2] THEN <<Append(prev[1], s[j]), FALSE>>          \* slid into the hole: not tested, kept
             ELSE IF P(s[j]) THEN <<prev[1], TRUE>> ELSE <<Append(prev[1], s[j]), FALSE>>
  IN F[Len(s)][1]
PruneAll(s, P(_)) == SelectSeq(s, LAMBDA x : ~P(x))
Prune(s, P(_)) == IF "D_WalkRemoveWhileIterating" \in Dev THEN PruneSkip(s, P) ELSE PruneAll(s, P)

OutRel(c, D) == c.out.path \o D       \* where out/rel lives, when the output directory is inside the input tree
Mkdirs(f, p) ==    \* os.makedirs(p, exist_ok=True) below the input directory
  LET F[j \in 0..Len(p)] ==
        IF j = 0 THEN f
        ELSE LET g == F[j-1]
                 par == SubSeq(p, 1, j-1)
                 me == SubSeq(p, 1, j)
                 g1 == IF par \in DOMAIN g THEN [g EXCEPT ![par].dirs = @ \cup {p[j]}] ELSE g
             IN IF me \in DOMAIN g1 THEN g1 ELSE g1 @@ (me :> [dirs |-> {}, files |-> {}])
  IN F[Len(p)]
AddFile(f, dir, name) == [f EXCEPT ![dir].files = {x \in @ : x.n # name.n} \cup {name}]

\* the result of visiting directory D whose listing came back as (ldirs, lfiles)
VisitResult(f, c, D, ldirs, lfiles) ==
  LET \* the output directory inside the input tree is never input (repaired F14: pruned like an excluded directory)
      \* symbolic links to directories are dropped from the list unless they are followed (repaired F17; before, they
      \* stayed in the list - and in the toctree - although os.walk does not descend into them)
      ldirsL == IF ~c.follow /\ "D_LinkedDirsListed" \notin Dev THEN SelectSeq(ldirs, LAMBDA s : ~IsLink(s)) ELSE ldirs
      ldirs0 == IF c.out.inside /\ "D_SelfFeedingWalk" \notin Dev
                THEN SelectSeq(ldirsL, LAMBDA s : Append(D, s) # c.out.path) ELSE ldirsL
      sub1 == Prune(ldirs0, LAMBDA s : Match(c.pats, Append(D, s), TRUE))
      fil1 == Prune(lfiles, LAMBDA x : Match(c.pats, Append(D, x), FALSE))
      \* auto-exclusion of sub-directories: os.scandir, case-sensitive ".cmake", ignores the patterns
      KeepSub(s) == \E x \in Dir(f, Append(D, s)).files :
                       x.lc /\ ("D_AutoExcludeIgnoresSpec" \notin Dev => ~Match(c.pats, Append(Append(D, s), x), FALSE))
      sub2 == IF c.auto THEN SelectSeq(sub1, KeepSub) ELSE sub1
      proceed == ~c.auto \/ \E j \in 1..Len(fil1) : fil1[j].lc
      sfiles == SortSeqNames(fil1)
      ssub == SortSeqNames(sub2)
      tocfiles == SelectSeq(sfiles, LAMBDA x : x.ci)
      docfiles == SelectSeq(sfiles, LAMBDA x : IF "D_BareCmakeName" \in Dev THEN x.le ELSE x.ci)
  IN [sub |-> sub2, walk |-> SelectSeq(sub2, LAMBDA s : c.follow \/ ~IsLink(s)),     \* where os.walk goes next
      scanned |-> IF c.auto THEN {Append(D, sub1[j]) : j \in 1..Len(sub1)} ELSE {},
      proceed |-> proceed,
      index |-> [dir |-> D, toc_dirs |-> IF c.recursive THEN Names(ssub) ELSE <<>>,
                 toc_files |-> [j \in 1..Len(tocfiles) |-> tocfiles[j].stem],
                 title |-> IF D = <<>> /\ ("D_IndexTitleDotIsSep" \in Dev => c.sep = ".") THEN "prefix"
                           ELSE IF D = <<>> THEN "prefix+sep+dot" ELSE "prefix+sep+rel"],
      docs |-> docfiles]

\* ---------------------------------------------------------------- actions
Init ==
  /\ tree0 \in Trees
  /\ \E pats \in PatternSets, r \in RecChoices, a \in AutoChoices, ok \in OutKinds, sep \in SepChoices,
        fl \in {FALSE} \cup (IF HasLink(tree0) THEN {TRUE} ELSE {}) :        \* input.follow_symlinks matters only where a link exists
        cfg = [pats |-> pats, recursive |-> r, auto |-> a, sep |-> sep, follow |-> fl,
               out |-> [kind |-> ok, inside |-> ok \in {"top", "sub"}, path |-> IF ok \in {"top", "sub"} THEN OutSub[ok] ELSE <<>>]]
  /\ fs = tree0 /\ pc = "start" /\ stack = <<>> /\ visited = <<>> /\ scanned = {} /\ effects = <<>> /\ outcome = ""
  /\ hist = <<>>

\* document(): the head of the function
DocumentInput ==
  /\ pc = "start"
  /\ IF Match(cfg.pats, <<>>, TRUE)
     THEN /\ pc' = "done" /\ outcome' = "excluded" /\ UNCHANGED stack      \* early return: no effects at all
     ELSE /\ pc' = "walk" /\ stack' = <<<<>>>> /\ UNCHANGED outcome
  /\ UNCHANGED <<tree0, cfg, fs, visited, scanned, effects, hist>>

\* one iteration of the os.walk loop
VisitDir ==
  /\ pc = "walk" /\ stack # <<>>
  /\ LET D == Head(stack) IN
     IF Len(D) > MaxWalkDepth
     THEN /\ pc' = "done" /\ outcome' = "diverges" /\ UNCHANGED <<fs, stack, visited, scanned, effects, hist>>
     ELSE
     \E ldirs \in Perms(Dir(fs, D).dirs), lfiles \in Perms(Dir(fs, D).files) :
       LET r == VisitResult(fs, cfg, D, ldirs, lfiles)
           hasOut == cfg.out.kind # "none"
           sub == r.walk
           fs1 == IF r.proceed /\ cfg.out.inside
                  THEN LET g == Mkdirs(fs, OutRel(cfg, D))
                           g1 == AddFile(g, OutRel(cfg, D), IndexRst)
                           G[j \in 0..Len(r.docs)] == IF j = 0 THEN g1 ELSE AddFile(G[j-1], OutRel(cfg, D), RstName(r.docs[j].stem))
                       IN G[Len(r.docs)]
                  ELSE fs
           eff == IF ~r.proceed THEN <<>>
                  ELSE (IF hasOut THEN <<[e |-> "index"] @@ r.index>> ELSE <<>>)
                       \o [j \in 1..Len(r.docs) |-> [e |-> IF hasOut THEN "page" ELSE "print", dir |-> D,
                                                      file |-> r.docs[j].n, stem |-> r.docs[j].stem]]
           stop == r.proceed /\ ~cfg.recursive      \* `continue` skips the recursion check
       IN /\ visited' = Append(visited, D)
          /\ hist' = Append(hist, [dir |-> Names(D), ldirs |-> Names(ldirs), lfiles |-> Names(lfiles)])
          /\ scanned' = scanned \cup r.scanned
          /\ fs' = fs1
          /\ effects' = effects \o eff
          /\ stack' = IF stop THEN <<>> ELSE [j \in 1..Len(sub) |-> Append(D, sub[j])] \o Tail(stack)
          /\ UNCHANGED <<pc, outcome>>
  /\ UNCHANGED <<tree0, cfg>>

Finish == /\ pc = "walk" /\ stack = <<>> /\ pc' = "done" /\ outcome' = "ok"
          /\ UNCHANGED <<tree0, cfg, fs, stack, visited, scanned, effects, hist>>

Next == DocumentInput \/ VisitDir \/ Finish
Spec == Init /\ [][Next]_vars

\* ---------------------------------------------------------------- observables
Done == pc = "done"
Eff(kind) == SelectSeq(effects, LAMBDA e : e.e = kind)
Pages == {<<e.dir, e.stem>> : e \in SeqRange(Eff("page")) \cup SeqRange(Eff("print"))}
PageFiles == {<<e.dir, e.file>> : e \in SeqRange(Eff("page")) \cup SeqRange(Eff("print"))}
IndexDirs == {e.dir : e \in SeqRange(Eff("index"))}
IndexOf(D) == CHOOSE e \in SeqRange(Eff("index")) : e.dir = D
Judged == Done /\ InDomain(tree0, cfg)

\* ---------------------------------------------------------------- C13
C13_NoDivergence == Judged => outcome # "diverges"
IdealPageFiles == UNION {{<<D, f.n>> : f \in ProcFiles(tree0, cfg, D)} : D \in ProcDirs(tree0, cfg)}
C13_PagesAreProcessedFiles == Judged /\ outcome = "ok" => PageFiles = IdealPageFiles
C13_OnePagePerFile == Judged => Len(Eff("page")) + Len(Eff("print")) = Cardinality(PageFiles)
C13_OneIndexPerProcessedDir ==
  Judged /\ outcome = "ok" /\ cfg.out.kind # "none" =>
     /\ IndexDirs = ProcDirs(tree0, cfg) /\ Len(Eff("index")) = Cardinality(IndexDirs)
C13_NoIndexOnStdout == Judged /\ cfg.out.kind = "none" => Eff("index") = <<>>

\* ---------------------------------------------------------------- C14
C14_ToctreeExact ==
  Judged /\ outcome = "ok" /\ cfg.out.kind # "none" =>
     \A D \in IndexDirs :
        LET ix == IndexOf(D) IN
        /\ SeqRange(ix.toc_files) = {f.stem : f \in ProcFiles(tree0, cfg, D)}
        /\ Len(ix.toc_files) = Cardinality(ProcFiles(tree0, cfg, D))
        /\ SeqRange(ix.toc_dirs) = (IF cfg.recursive THEN {s.n : s \in ProcSubdirs(tree0, cfg, D)} ELSE {})
        /\ Len(ix.toc_dirs) = Cardinality(SeqRange(ix.toc_dirs))
C14_NoDangling ==
  Judged /\ outcome = "ok" /\ cfg.out.kind # "none" =>
     \A ix \in SeqRange(Eff("index")) :
        /\ \A j \in 1..Len(ix.toc_files) : <<ix.dir, ix.toc_files[j]>> \in Pages
        /\ \A j \in 1..Len(ix.toc_dirs) : \E d \in IndexDirs : Len(d) = Len(ix.dir) + 1 /\ IsPrefix2(ix.dir, d) /\ d[Len(d)].n = ix.toc_dirs[j]
C14_Reachable ==
  Judged /\ outcome = "ok" /\ cfg.out.kind # "none" /\ cfg.recursive =>
     \A D \in IndexDirs : D = <<>> \/ (SubSeq(D, 1, Len(D) - 1) \in IndexDirs
                                        /\ D[Len(D)].n \in SeqRange(IndexOf(SubSeq(D, 1, Len(D) - 1)).toc_dirs))
C14_IndexTitle ==
  Judged /\ cfg.out.kind # "none" =>
     \A ix \in SeqRange(Eff("index")) : ix.title = IF ix.dir = <<>> THEN "prefix" ELSE "prefix+sep+rel"

\* ---------------------------------------------------------------- C15
Excluded(D) == \E j \in 1..Len(D) : Match(cfg.pats, SubSeq(D, 1, j), TRUE)
C15_ProcessedIffNotMatched ==
  Judged /\ outcome = "ok" =>
     \A D \in ProcDirs(tree0, cfg) : {x[2] : x \in {y \in PageFiles : y[1] = D}} = {f.n : f \in ProcFiles(tree0, cfg, D)}
C15_NotDescended == Done => \A j \in 1..Len(visited) : ~Excluded(visited[j])
C15_ExcludedNotScanned == Done => \A D \in scanned : ~Excluded(D)
C15_WholeInputExcluded == Done /\ Match(cfg.pats, <<>>, TRUE) => effects = <<>> /\ visited = <<>> /\ fs = tree0

\* ---------------------------------------------------------------- C18 (effects)
\* without an output directory nothing is written; index pages are never printed
C18_NoWritesWithoutOut == Done /\ cfg.out.kind = "none" => fs = tree0 /\ Eff("index") = <<>> /\ Eff("page") = <<>>
\* with an output directory nothing is printed
C18_NoPrintsWithOut == Done /\ cfg.out.kind # "none" => Eff("print") = <<>>
\* an output directory inside the input tree: the file system changes only at and below it
\* (its missing ancestors are created, and gain exactly the next path element)
C18_WritesUnderOut ==
  Done /\ cfg.out.inside =>
     \A p \in DOMAIN fs :
        \/ IsPrefix2(cfg.out.path, p)
        \/ /\ IsPrefix2(p, cfg.out.path) /\ Len(p) < Len(cfg.out.path)
           /\ Dir(fs, p).files = Dir(tree0, p).files
           /\ Dir(fs, p).dirs \ Dir(tree0, p).dirs \subseteq {cfg.out.path[Len(p) + 1]}
        \/ (p \in DOMAIN tree0 /\ fs[p] = tree0[p])
\* the pages of one directory are emitted together, in sorted name order
PageEvents == SelectSeq(effects, LAMBDA e : e.e \in {"page", "print"})
C18_SortedPerDirectory ==
  Done => \A i, j \in 1..Len(PageEvents) :
     (i < j /\ PageEvents[i].dir = PageEvents[j].dir) =>
        /\ \A k \in i..j : PageEvents[k].dir = PageEvents[i].dir
        /\ (CHOOSE f \in Dir(tree0, PageEvents[i].dir).files : f.n = PageEvents[i].file).rk
             < (CHOOSE f \in Dir(tree0, PageEvents[j].dir).files : f.n = PageEvents[j].file).rk

\* ---------------------------------------------------------------- behaviours for replay
Emit == Done => PrintT(<<"BEH", ToJson([tree |-> {[path |-> Names(p), dirs |-> {x.n : x \in tree0[p].dirs},
                                                   files |-> {x.n : x \in tree0[p].files}] : p \in DOMAIN tree0},
                                        cfg |-> [recursive |-> cfg.recursive, auto |-> cfg.auto, sep |-> cfg.sep, follow |-> cfg.follow,
                                                 out |-> [kind |-> cfg.out.kind, path |-> Names(cfg.out.path)],
                                                 pats |-> {p.txt : p \in cfg.pats}],
                                        indom |-> InDomain(tree0, cfg), outcome |-> outcome, listings |-> hist,
                                        excluded |-> {Names(D) : D \in {D \in DOMAIN tree0 : Excluded(D)}},
                                        visited |-> [j \in 1..Len(visited) |-> Names(visited[j])],
                                        effects |-> [j \in 1..Len(effects) |-> [effects[j] EXCEPT !.dir = Names(@)]],
                                        ideal |-> [dirs |-> {Names(D) : D \in ProcDirs(tree0, cfg)},
                                                   files |-> {<<Names(x[1]), x[2]>> : x \in IdealPageFiles}]])>>)
View == <<tree0, cfg, fs, pc, stack, visited, scanned, effects, outcome>>
=============================================================================
