#!/bin/bash
# Runs every stored seeded change against the quick check of its property (on scratch copies of /repo) and
# writes selftest/matrix.txt: one line per change with the number of violations the check reports.
cd /verif
out=selftest/matrix.txt
: > $out
for d in seeded/*/; do
  id=$(basename $d)
  pid=$(echo $id | grep -oE 'C[0-9]{2}')
  kind=break; case $id in refactor_*) kind=refactor;; esac
  r=$(selftest/run_seeded.sh $d $pid 2>&1 | tail -1 | grep -oE "violations=[0-9]+ known=[0-9]+")
  echo "$id $kind check=$pid $r" >> $out
done
