"""C20 (and the writer half of C07): RstWriter.tla behaviours replayed on the real RSTWriter."""
import json
import random
from concurrent.futures import ProcessPoolExecutor

import lib

HEADER_LISTS = [None, ["=", "-", "~"], ["~", "+", "="], ["*", "#", "^"], ["=", "=", "-"], ["x", "=", "="]]   # incl. repeated and non-punctuation characters


def render_line(l, hchar, hlist=None):
    t = l["t"]
    sp = " " * l["sp"]
    k = t[0]
    if k == "blank":
        return ""
    if k == "over":
        return hchar * t[1]
    if k == "title":
        return tid(t[1])
    if k == "para":
        n, j, lead, w = t[1], t[2], t[3], t[4]
        return sp + " " * lead + (("%s%d" % (w, n)) if w else "")
    if k == "field":
        return sp + ":fld%d: val%d" % (t[1], t[1])
    if k == "blist":
        return sp + "* " + t[3]
    if k == "elist":
        return sp + "%d. %s" % (t[2], t[3])
    if k == "dirhead":
        return sp + ".. dir%d:: arg%d" % (t[1], t[1])
    if k == "option":
        return sp + ":%s: v%d" % (optname(t[1], t[2]), t[2])
    if k == "doctest":
        return sp + ">>> test%d" % t[1]
    if k == "expected":
        return "exp%d" % t[1]
    if k == "sover":
        return hlist[t[2]] * t[3]
    if k == "stitle":
        return tid(t[2])
    raise ValueError(t)


def tid(s):
    """title ids of the specification are ASCII (TLC's ToJson mangles characters above U+00FF): '%W' stands for a wide
    character (U+5DE5), '~' for COMBINING ACUTE ACCENT"""
    return s.replace("%W", "\u5de5").replace("~", "\u0301")


def optname(node, j):
    """every second directive gives all its options the same name: an added option is an element of its own"""
    return "opt1" if node % 2 == 1 else "opt%d" % j


def replay_history(beh, headers):
    """Apply the API calls of one behaviour to a real RSTWriter. Returns None or a mismatch description."""
    from cminx.rstwriter import RSTWriter
    from cminx.config import Settings, RSTSettings
    hist, outs = beh["hist"], beh["outs"]
    settings = Settings(rst=RSTSettings(headers=headers)) if headers else Settings()
    hlist = list(headers or RSTWriter.heading_level_chars)
    hchar = hlist[0]
    handles = {}
    optcount = {}
    drift = []
    root = None
    nnodes = 0
    k = 0
    for step, o in enumerate(hist):
        op = o["op"]
        if op == "new":
            root = RSTWriter(tid(o["t"]["id"]), settings=settings)
            handles[0] = root
            if len(tid(o["t"]["id"])) != o["t"]["len"]:
                raise lib.MachineryError("title menu inconsistent: %r" % (o["t"],))
            continue
        if op == "set_title":
            root.title = tid(o["t"]["id"])
            continue
        w = handles[o["h"]]
        if op == "text":
            nnodes += 1
            w.text("\n".join(" " * x["lead"] + (("%s%d" % (x["w"], nnodes)) if x["w"] else "") for x in o["txt"]))
        elif op == "field":
            nnodes += 1
            w.field("fld%d" % nnodes, "val%d" % nnodes)
        elif op == "blist":
            nnodes += 1
            w.bulleted_list(*o["items"])
        elif op == "elist":
            nnodes += 1
            w.enumerated_list(*o["items"])
        elif op == "directive":
            nnodes += 1
            handles[nnodes] = w.directive("dir%d" % nnodes, "arg%d" % nnodes)
        elif op == "doctest":
            nnodes += 1
            w.doctest("test%d" % nnodes, "exp%d" % nnodes)
        elif op == "section":
            nnodes += 1
            handles[nnodes] = w.section(tid(o["t"]["id"]))
        elif op == "option":
            j = optcount.get(o["h"], 0) + 1
            optcount[o["h"]] = j
            w.option(optname(o["h"], j), "v%d" % j)
        elif op == "clear":
            w.clear()
        elif op == "to_text":
            before = (len(w.document), len(getattr(w, "options", [])), [id(x) for x in w.document])
            got = w.to_text()
            got2 = str(w)
            after = (len(w.document), len(getattr(w, "options", [])), [id(x) for x in w.document])
            exp = "\n".join(render_line(l, hchar, hlist) for l in outs[k]) + "\n"
            kinds = [l["t"][0] for l in outs[k]]
            k += 1
            if got != exp:
                # the verdict is about what C20 states (framing, indentation of every element line, options directly
                # after the heading, order): the non-blank lines. A difference in blank lines only is model drift.
                nb = lambda t: [l for l in t.split("\n") if l.strip()]
                if nb(got) != nb(exp):
                    return {"step": step, "why": "non-blank lines of the serialisation (framing, indentation, order, options) differ from the specification", "expected": exp, "observed": got}
                # the frame of an EMPTY title consists of empty lines: there the heading block is compared as it stands
                if kinds[:4] == ["blank", "over", "title", "over"] and outs[k - 1][2]["t"][1] == "" and got.split("\n")[:4] != exp.split("\n")[:4]:
                    return {"step": step, "why": "the heading of a page with an empty title is not the empty title between its (empty) over- and underline",
                            "expected": exp, "observed": got}
                gl = got.split("\n")
                for j, l in enumerate(gl):
                    if l.strip().startswith(":opt") and j > 0 and not (gl[j - 1].strip().startswith(".. dir") or gl[j - 1].strip().startswith(":opt")):
                        return {"step": step, "why": "a directive option is not directly after the directive heading", "expected": exp, "observed": got}
                drift.append({"step": step, "expected": exp, "observed": got})
            if got2 != got:
                return {"step": step, "why": "serialising twice gives different text", "expected": got, "observed": got2}
            if before != after:
                return {"step": step, "why": "to_text changed the document", "expected": str(before), "observed": str(after)}
    if drift:
        return {"drift": drift[0]}
    return None


def _chunk(args):
    chunk, seed = args
    out = []
    for n, beh in chunk:
        headers = HEADER_LISTS[(seed + n) % len(HEADER_LISTS)]
        try:
            r = replay_history(beh, headers)
        except lib.MachineryError:
            raise
        except Exception as e:
            r = {"step": -1, "why": "exception in the writer API: %r" % (e,), "expected": "no exception", "observed": repr(e)}
        out.append((n, r, headers))
    return out


def _init(src):
    lib.CMINX_SRC = src
    lib.use_repo_sources()


def replay(run, behs, seed, limit=None):
    if limit and len(behs) > limit:
        behs = random.Random(seed).sample(behs, limit)
    items = list(enumerate(behs))
    chunks = [(items[i::lib.NCPU * 2], seed) for i in range(lib.NCPU * 2)]
    chunks = [c for c in chunks if c[0]]
    with ProcessPoolExecutor(max_workers=lib.NCPU, initializer=_init, initargs=(lib.CMINX_SRC,)) as ex:
        for part in ex.map(_chunk, chunks):
            for n, r, headers in part:
                run.behaviours += 1
                ops = [o["op"] + (str(o.get("h", "")) if "h" in o else "") for o in behs[n]["hist"]]
                run.count(json.dumps(behs[n]["hist"], sort_keys=True))
                if r and "drift" in r:
                    run.drifted({"history": ops, "blank_line_difference": r["drift"]})
                elif r:
                    run.violation({"history": behs[n]["hist"], "headers": headers, "ops": ops}, r["expected"], r["observed"], r["why"])
    if behs:
        run.sample({"api_history": behs[len(behs) // 2]["hist"]})


def fixed_cases(run):
    """Two API uses outside the histories of RstWriter.tla: a DIRECTIVE's title is changed after options were added
    (heading re-made, options and content stay, in order), and a page title that contains a line feed (the frame has
    the title's length in characters)."""
    from cminx.rstwriter import RSTWriter
    for depth in (0, 1, 2):
        w = RSTWriter("T")
        holder = w
        for k in range(depth):
            holder = holder.directive("outer%d" % k, "x")
        d = holder.directive("dir1", "arg1")
        d.option("o1", "v1")
        d.text("body line")
        d.title = "dir2"
        d.option("o2", "v2")
        got = [l for l in w.to_text().split("\n") if l.strip()]
        ind = "   " * depth
        want_tail = [ind + ".. dir2:: arg1", ind + "   :o1: v1", ind + "   :o2: v2", ind + "   body line"]
        run.count("directive-title-change:%d" % depth)
        if got[-4:] != want_tail or w.to_text() != str(w):
            run.violation({"api": "directive(...).option(); .text(); .title = ...; .option()", "depth": depth, "features": {"directive_title_change": True}},
                          want_tail, got[-5:], "after a directive's title was changed its options or content are lost or out of order")
    for title in ("two\nlines", "\n"):
        text = RSTWriter(title).to_text()
        run.count("title-with-line-feed:" + repr(title))
        want = "\n" + "#" * len(title) + "\n" + title + "\n" + "#" * len(title) + "\n"
        if text != want:
            run.violation({"title": title, "features": {"title_with_line_feed": True}}, want, text,
                          "the frame of a title does not have the title's length")
