------------------------------ MODULE CMakeGen ------------------------------
(***************************************************************************)
(* Generative side of the lexer/parser model (C05, the layout half of C04, *)
(* C06): files are built from the productions of cmake-language(7) -        *)
(* identifier, '(' arguments ')', the three argument forms, separation,     *)
(* line and bracket comments, line endings - so that the command sequence   *)
(* and the argument boundaries CMake sees are known by construction (Req).  *)
(* Impl lexes the text with the step machine of CMakeLex and groups the     *)
(* tokens as the grammar of CMake.g4 does.  RefAgree: both agree and no     *)
(* error is reported.  A fault (C06) can be injected at any position.       *)
(***************************************************************************)
EXTENDS CMakeLex, CMakeLang, Json

CONSTANTS Idents,      \* identifier texts (sequences of class symbols)
          ArgMenu,     \* reference-valid single arguments: [form, t]
          SepMenu,     \* separation inside argument lists (spaces, newlines, comments)
          EndMenu,     \* line endings after ')' (the last command may also end at EOF)
          GapMenu,     \* what may stand between two commands (blank lines, comments)
          MaxCmds, MaxArgs, MaxDepth, MaxLen,
          FaultMenu    \* C06: fault strings that may be injected (empty set: none)

VARIABLES text,    \* the file so far
          cmds,    \* Req: completed commands [name, args: flat sequence of [k: "(" | ")" | "arg", t]]
          cur,     \* the command being written ([name, args]) or [name |-> <<>>] when between commands
          depth,   \* open compound arguments
          sepOk,   \* may an argument follow here without separation?
          lastSep, \* the previous element was separation (at most one in a row)
          atEof,   \* the last command ended without a line ending
          fault    \* [pos, t] of the injected fault, pos = 0: none
vars == <<text, cmds, cur, depth, sepOk, lastSep, atEof, fault>>

NoCmd == [name |-> <<>>, from |-> 0, args |-> <<>>]
InCmd == cur.name # <<>>
NArgs == Len(SelectSeq(cur.args, LAMBDA x : x.k = "arg"))
Fits(t) == Len(text) + Len(t) <= MaxLen

Init == /\ text = <<>> /\ cmds = <<>> /\ cur = NoCmd /\ depth = 0 /\ sepOk = FALSE /\ lastSep = FALSE /\ atEof = FALSE
        /\ fault = [pos |-> 0, t |-> <<>>]

Begin(id, sp) == /\ ~InCmd /\ ~atEof /\ Len(cmds) < MaxCmds /\ fault.pos = 0
                 /\ LET t == id \o sp \o <<"(">> IN Fits(t \o <<")">>) /\ text' = text \o t
                 /\ cur' = [name |-> id, from |-> Len(text) + 1, args |-> <<>>] /\ sepOk' = TRUE /\ lastSep' = FALSE
                 /\ UNCHANGED <<cmds, depth, atEof, fault>>
Arg(a) == /\ InCmd /\ sepOk /\ NArgs < MaxArgs /\ Fits(a.t \o [j \in 1..(depth + 1) |-> ")"]) /\ fault.pos = 0
          /\ text' = text \o a.t /\ cur' = [cur EXCEPT !.args = Append(@, [k |-> "arg", t |-> a.t, from |-> Len(text) + 1])]
          /\ sepOk' = FALSE /\ lastSep' = FALSE /\ UNCHANGED <<cmds, depth, atEof, fault>>
Sep(s) == /\ InCmd /\ ~lastSep /\ Fits(s \o [j \in 1..(depth + 1) |-> ")"]) /\ fault.pos = 0
          /\ text' = text \o s /\ sepOk' = TRUE /\ lastSep' = TRUE /\ UNCHANGED <<cmds, cur, depth, atEof, fault>>
Open == /\ InCmd /\ depth < MaxDepth /\ Fits(<<"(">> \o [j \in 1..(depth + 2) |-> ")"]) /\ fault.pos = 0
        /\ text' = Append(text, "(") /\ cur' = [cur EXCEPT !.args = Append(@, [k |-> "(", t |-> <<"(">>, from |-> Len(text) + 1])]
        /\ depth' = depth + 1 /\ sepOk' = TRUE /\ lastSep' = FALSE /\ UNCHANGED <<cmds, atEof, fault>>
Close == /\ InCmd /\ depth > 0 /\ fault.pos = 0
         /\ text' = Append(text, ")") /\ cur' = [cur EXCEPT !.args = Append(@, [k |-> ")", t |-> <<")">>, from |-> Len(text) + 1])]
         /\ depth' = depth - 1 /\ sepOk' = FALSE /\ lastSep' = FALSE /\ UNCHANGED <<cmds, atEof, fault>>
End(le) == /\ InCmd /\ depth = 0 /\ Len(text) + 1 + Len(le) <= MaxLen + 2 /\ fault.pos = 0
           /\ text' = text \o <<")">> \o le /\ cmds' = Append(cmds, cur) /\ cur' = NoCmd
           /\ atEof' = (le = <<>>) /\ sepOk' = FALSE /\ lastSep' = FALSE /\ UNCHANGED <<depth, fault>>
Gap(g) == /\ ~InCmd /\ ~atEof /\ ~lastSep /\ Fits(g) /\ fault.pos = 0
          /\ text' = text \o g /\ lastSep' = TRUE /\ UNCHANGED <<cmds, cur, depth, sepOk, atEof, fault>>
\* C06: one fault string inserted at any position of a complete file
Complete == ~InCmd /\ Len(cmds) >= 1
Inject(p, f) == /\ Complete /\ fault.pos = 0 /\ p \in 1..(Len(text) + 1)
                /\ text' = SubSeq(text, 1, p - 1) \o f \o SubSeq(text, p, Len(text))
                /\ fault' = [pos |-> p, t |-> f] /\ UNCHANGED <<cmds, cur, depth, sepOk, lastSep, atEof>>

BeginCommand == \E id \in Idents, sp \in {<<>>, <<" ">>} : Begin(id, sp)
AddArgument == \E a \in ArgMenu : Arg(a)
AddSeparation == \E s \in SepMenu : Sep(s)
EndCommand == \E le \in EndMenu : End(le)
AddGap == \E g \in GapMenu : Gap(g)
InjectFault == \E f \in FaultMenu : \E p \in 1..(Len(text) + 1) : Inject(p, f)
Next == BeginCommand \/ AddArgument \/ AddSeparation \/ Open \/ Close \/ EndCommand \/ AddGap \/ InjectFault
Spec == Init /\ [][Next]_vars

\* ---------------------------------------------------------------- Impl: tokens -> commands as CMake.g4 groups them
ArgKinds == {"Identifier", "Unquoted_argument", "Quoted_argument", "Bracket_argument"}
ParseToks(toks, txt) ==
  LET F[j \in 0..Len(toks)] ==
        IF j = 0 THEN [mode |-> "top", depth |-> 0, cur |-> NoCmd, cmds |-> <<>>, ok |-> TRUE, errAt |-> 0]
        ELSE LET s == F[j-1]
                 tk == toks[j]
                 tt == TokText(txt, tk)
                 bad == [s EXCEPT !.ok = FALSE, !.errAt = IF s.ok THEN j ELSE s.errAt]
             IN IF ~s.ok THEN s
                ELSE CASE s.mode = "top" ->
                            IF tk.k = "Identifier" THEN [s EXCEPT !.mode = "name", !.cur = [name |-> tt, from |-> tk.from, args |-> <<>>]]
                            ELSE IF tk.k = "Docstring" \/ (tk.k = "Module_docstring" /\ j = 1) THEN s
                            ELSE bad
                       [] s.mode = "name" -> IF tk.k = "(" THEN [s EXCEPT !.mode = "args"] ELSE bad
                       [] s.mode = "args" ->
                            IF tk.k = "(" THEN [s EXCEPT !.depth = @ + 1, !.cur.args = Append(@, [k |-> "(", t |-> tt, from |-> tk.from])]
                            ELSE IF tk.k = ")" THEN
                                 IF s.depth = 0 THEN [s EXCEPT !.mode = "top", !.cmds = Append(@, s.cur), !.cur = NoCmd]
                                 ELSE [s EXCEPT !.depth = @ - 1, !.cur.args = Append(@, [k |-> ")", t |-> tt, from |-> tk.from])]
                            ELSE IF tk.k \in ArgKinds THEN [s EXCEPT !.cur.args = Append(@, [k |-> "arg", t |-> tt, from |-> tk.from])]
                            ELSE bad
  IN LET r == F[Len(toks)] IN [cmds |-> r.cmds, ok |-> r.ok /\ r.mode = "top", errAt |-> r.errAt]

\* C05: every file derivable from the reference productions is lexed without error and grouped into the
\* same commands with the same argument boundaries.  (One LET so that the text is lexed once per state.)
RefAgreeOn(lx, ps) == lx.errs = <<>> /\ ps.ok /\ ps.cmds = cmds
\* the token kinds of the lexer model in the alphabet of CMakeLang / CMakeParse
KindOf(k) == CASE k = "Identifier" -> "id" [] k = "(" -> "lp" [] k = ")" -> "rp" [] k = "Unquoted_argument" -> "unq"
               [] k = "Quoted_argument" -> "quo" [] k = "Bracket_argument" -> "brk" [] k = "Docstring" -> "doc"
               [] k = "Module_docstring" -> "mdoc" [] OTHER -> "other"
\* the fold above groups the tokens into commands exactly when the kinds form a sentence of the grammar
\* (with or without an injected fault: what the parser sees is whatever the lexer's recovery left)
ParsersAgree(lx, ps) == LET ks == [j \in 1..Len(lx.toks) |-> KindOf(lx.toks[j].k)] IN ps.ok <=> WellFormed(ks)
RefAgree ==
  Complete =>
    LET lx == Lex(text)
        ps == ParseToks(lx.toks, text)
    IN /\ (fault.pos = 0 => RefAgreeOn(lx, ps))
       /\ ParsersAgree(lx, ps)
       /\ PrintT(<<"BEH", ToJson([text |-> text, cmds |-> cmds, fault |-> fault, lexerrs |-> lx.errs, parseok |-> ps.ok,
                                  implcmds |-> ps.cmds,
                                  toks |-> [j \in 1..Len(lx.toks) |-> [k |-> lx.toks[j].k, from |-> lx.toks[j].from, to |-> lx.toks[j].to]]])>>)
=============================================================================
