"""Shared machinery: TLC runner, verdict bookkeeping, evidence, known findings.

Every check is `check.py <Cxx> [--tier quick|thorough]`; the per-property module
builds TLC runs (spec -> behaviours), replays them into the real code (binding A),
records real executions and has TLC validate them (binding B), and reports through
`Run` below.  Exit codes: 0 held / known findings only, 1 violation, 2 machinery failure.
"""
import hashlib
import json
import os
import random
import re
import shutil
import subprocess
import sys
import tempfile
import time

VERIF = os.path.dirname(os.path.dirname(os.path.abspath(__file__)))
SPEC = os.path.join(VERIF, "spec")
# where evidence/ and replays/ are written: /verif itself, unless a self-test run against a scratch copy of the
# repository redirects them (selftest/run_seeded.sh) so that the committed evidence only ever stems from /repo
OUT = os.environ.get("VERIF_OUT") or VERIF
REPO = os.environ.get("CMINX_REPO", "/repo")
CMINX_SRC = os.environ.get("CMINX_SRC", os.path.join(REPO, "src"))
TLA_CP = "/opt/veriftools/tla/tla2tools.jar:/opt/veriftools/tla/CommunityModules-deps.jar"
NCPU = min(16, os.cpu_count() or 4)


class MachineryError(Exception):
    pass


def use_repo_sources():
    """Make `import cminx` resolve to the working tree under test (CMINX_SRC)."""
    if CMINX_SRC not in sys.path:
        sys.path.insert(0, CMINX_SRC)
    import warnings
    warnings.filterwarnings("ignore")
    import cminx  # noqa
    got = os.path.dirname(os.path.dirname(os.path.abspath(cminx.__file__)))
    if os.path.realpath(got) != os.path.realpath(CMINX_SRC):
        raise MachineryError(f"cminx imported from {got}, expected {CMINX_SRC}")


_BEH_RE = re.compile(r'^<<"([A-Z]+)", (".*")>>$')


class TlcResult:
    def __init__(self):
        self.generated = 0
        self.distinct = 0
        self.lines = {}      # tag -> list of decoded json objects
        self.coverage = {}   # action name -> count of states generated
        self.stdout = ""
        self.ok = False
        self.violated = None  # name of violated invariant/property, if any
        self.wall = 0.0
        self.depth = 0


def run_tlc(module, cfg_text, *, workers=None, simulate=None, depth=None, seed=None,
            env=None, timeout=None, coverage=True, extra_modules=(), tags=("BEH",),
            want_violation=False, deadlock=False, heap="6g", keep=None):
    """Run TLC on spec/<module>.tla with the given cfg text in a scratch dir.

    Lines printed as PrintT(<<"TAG", ToJson(x)>>) are collected in result.lines[TAG].
    """
    if timeout is None:
        # generous: a TLC run that takes 10 min on an idle 16-core machine must not fail the check on a loaded one
        timeout = 1800 if os.environ.get("VERIF_TIER", "quick") == "quick" else 4 * 3600
    res = TlcResult()
    tmp = tempfile.mkdtemp(prefix="verif_tlc_")
    try:
        for f in os.listdir(SPEC):
            if f.endswith(".tla"):
                shutil.copy(os.path.join(SPEC, f), tmp)
        with open(os.path.join(tmp, module + ".cfg"), "w") as fh:
            fh.write(cfg_text)
        w = workers or NCPU
        cmd = ["java", "-XX:+UseParallelGC", "-Xss64m", "-Xmx" + heap, "-Djava.io.tmpdir=" + tmp, "-cp", TLA_CP, "tlc2.TLC",
               "-workers", str(w), "-metadir", os.path.join(tmp, "meta"), "-noGenerateSpecTE"]
        if not deadlock:
            cmd += ["-deadlock"]
        if coverage and not simulate:
            cmd += ["-coverage", "1"]
        if simulate:
            cmd += ["-simulate", "num=%d" % simulate]
            if depth:
                cmd += ["-depth", str(depth)]
        if seed is not None:
            cmd += ["-seed", str(seed)]
        cmd += ["-config", module + ".cfg", module + ".tla"]
        e = dict(os.environ)
        if env:
            e.update(env)
        t0 = time.time()
        try:
            p = subprocess.run(cmd, cwd=tmp, env=e, stdout=subprocess.PIPE, stderr=subprocess.STDOUT,
                               timeout=timeout, text=True, errors="replace")
        except subprocess.TimeoutExpired as ex:
            out = ex.stdout if isinstance(ex.stdout, str) else (ex.stdout or b"").decode("utf8", "replace")
            raise MachineryError("TLC timeout on %s after %ss\n%s" % (module, timeout, out[-2000:]))
        res.wall = time.time() - t0
        out = p.stdout
        res.stdout = out
        if keep:
            with open(keep, "w") as fh:
                fh.write(out)
        for line in out.split("\n"):
            m = _BEH_RE.match(line)
            if m and m.group(1) in tags:
                try:
                    res.lines.setdefault(m.group(1), []).append(json.loads(json.loads(m.group(2))))
                except Exception:
                    raise MachineryError("unparseable TLC output line: " + line[:300])
                continue
            m = re.match(r"^(\d+) states generated, (\d+) distinct states found", line)
            if m:
                res.generated, res.distinct = int(m.group(1)), int(m.group(2))
            m = re.match(r"^The depth of the complete state graph search is (\d+)", line)
            if m:
                res.depth = int(m.group(1))
            m = re.match(r"^<(\w+) line \d+, col \d+ to line \d+, col \d+ of module (\w+)(?: \([\d ]+\))?>: (\d+):(\d+)", line)
            if m:
                res.coverage[m.group(1)] = res.coverage.get(m.group(1), 0) + int(m.group(4))
            m = re.match(r"^Error: Invariant (\w+) is violated", line)
            if m:
                res.violated = m.group(1)
            m = re.match(r"^Error: Action property (\w+) is violated", line)
            if m:
                res.violated = m.group(1)
        # TLC's workers print in a nondeterministic order: sort, so that seeded sampling is reproducible
        for tag in res.lines:
            if len(res.lines[tag]) > 1:
                res.lines[tag].sort(key=lambda x: json.dumps(x, sort_keys=True))
        if simulate and not res.generated:
            m = re.search(r"The number of states generated: (\d+)", out)
            if m:
                res.generated = res.distinct = int(m.group(1))
        finished = "Model checking completed. No error has been found." in out or \
                   (simulate and ("Simulation" in out or "states generated" in out) and "Error:" not in out)
        if res.violated:
            if not want_violation:
                raise MachineryError("TLC: %s violated in %s (specification-level failure)\n%s"
                                     % (res.violated, module, out[-3000:]))
            res.ok = True
        elif not finished:
            raise MachineryError("TLC failed on %s (rc=%s)\n%s" % (module, p.returncode, out[-3000:]))
        else:
            res.ok = True
        return res
    finally:
        shutil.rmtree(tmp, ignore_errors=True)


def covering_sample(behs, fields, limit, seed):
    """A sample of at most `limit` behaviours that covers every pair of (field, value) combinations occurring in
    `behs` (greedy pass over a seeded shuffle: a behaviour is kept if it shows a pair not seen yet), filled up with a
    seeded random choice of the rest.  `fields(beh)` returns a flat dict of hashable descriptor values.  A uniform
    sample of 0.5 % would see a rare combination of two descriptor values only by luck."""
    import itertools
    rng = random.Random(seed)
    order = list(range(len(behs)))
    rng.shuffle(order)
    seen = set()
    keep, rest = [], []
    for i in order:
        items = sorted((k, json.dumps(v, sort_keys=True, default=str)) for k, v in fields(behs[i]).items())
        new = [pr for pr in itertools.combinations(items, 2) if pr not in seen]
        if new and len(keep) < limit:
            seen.update(new)
            keep.append(i)
        else:
            rest.append(i)
    fill = rest[:max(0, limit - len(keep))]
    return [behs[i] for i in sorted(keep + fill)]


def counterexample(out):
    """Extract the states of a TLC error trace as a list of text blocks."""
    states = re.split(r"\nState \d+: ", out)
    return [s.split("\n\n")[0] for s in states[1:]]


class Run:
    """Bookkeeping for one check run: verdicts, evidence, known findings."""

    def __init__(self, pid, tier, seed, level="model_checking"):
        self.pid, self.tier, self.seed, self.level = pid, tier, seed, level
        self.t0 = time.time()
        self.states = 0
        self.transitions = 0
        self.traces = 0          # binding B: traces validated by TLC
        self.behaviours = 0      # binding A: spec behaviours replayed into the code
        self.evaluations = 0
        self.distinct = set()
        self.samples = []
        self.violations = []     # (signature, replay_path)
        self.known_hits = {}     # finding id -> count
        self.drift = []
        self.cov = {}
        self.tlc_runs = []
        self.notes = {}
        self.assumptions = []
        self.exhaustive = True
        shutil.rmtree(os.path.join(OUT, "replays", pid), ignore_errors=True)
        kf = os.path.join(VERIF, "known_findings.json")
        self.known = [f for f in json.load(open(kf))["findings"]] if os.path.exists(kf) else []

    # ---- TLC bookkeeping
    def add_tlc(self, name, res, vacuity_exempt=()):
        self.states += res.distinct
        self.transitions += res.generated
        self.tlc_runs.append({"config": name, "distinct_states": res.distinct, "states_generated": res.generated,
                              "depth": res.depth, "wall_s": round(res.wall, 1)})
        for a, n in res.coverage.items():
            self.cov[name + "." + a] = n
        zero = [a for a, n in res.coverage.items() if n == 0 and a not in vacuity_exempt and a != "Init"]
        if zero:
            raise MachineryError("vacuous TLC run %s: actions never taken: %s" % (name, zero))

    # ---- verdicts
    def sample(self, x, cap=6):
        if len(self.samples) < cap:
            self.samples.append(x)

    def count(self, key=None):
        self.evaluations += 1
        if key is not None:
            self.distinct.add(key if isinstance(key, (str, int)) else hashlib.sha1(
                json.dumps(key, sort_keys=True, default=str).encode()).hexdigest())

    def finding_for(self, pid, case):
        """Return the known (unfixed) finding whose signature matches this failing case."""
        for f in self.known:
            if f.get("status") != "known" or f["property"] != pid:
                continue
            if match_signature(f["signature"], case):
                return f
        return None

    def violation(self, case, expected, observed, why, pid=None):
        """Report a mismatch between the property's projection and the real code."""
        pid = pid or self.pid
        f = self.finding_for(pid, case)
        if f is not None:
            self.known_hits[f["id"]] = self.known_hits.get(f["id"], 0) + 1
            return False
        d = os.path.join(OUT, "replays", pid)
        os.makedirs(d, exist_ok=True)
        body = {"property": pid, "why": why, "case": case, "expected": expected, "observed": observed,
                "tier": self.tier, "seed": self.seed,
                "rerun": "cd /verif && bin/check %s --replay <this file>" % pid}
        h = hashlib.sha1(json.dumps(body, sort_keys=True, default=str).encode()).hexdigest()[:12]
        path = os.path.join(d, h + ".json")
        if len(self.violations) < 40:
            with open(path, "w") as fh:
                json.dump(body, fh, indent=1, default=str)
        self.violations.append((why, path))
        return True

    def drifted(self, what):
        if len(self.drift) < 20:
            self.drift.append(what)
        self.notes["drift_count"] = self.notes.get("drift_count", 0) + 1

    # ---- finish
    def finish(self, rule, extra=None):
        wall = time.time() - self.t0
        cov = {
            "states": self.states, "transitions": self.transitions,
            "traces_validated_against_impl": self.traces,
            "behaviours_replayed": self.behaviours,
            "evaluations": self.evaluations, "distinct_nontrivial": len(self.distinct),
            "rule": rule, "samples": self.samples or ["(none)"],
            "exhaustive": bool(self.exhaustive and self.tier != "quick" and False),
            "tlc_runs": self.tlc_runs, "action_coverage": self.cov,
            "known_findings_seen": self.known_hits, "model_drift": self.drift,
        }
        cov.update(self.notes)
        if extra:
            cov.update(extra)
        ev = {"property_id": self.pid, "tier": self.tier, "seed": self.seed, "level": self.level,
              "coverage": cov, "assumptions": self.assumptions, "wall_s": round(wall, 2),
              "violations": len(self.violations)}
        os.makedirs(os.path.join(OUT, "evidence"), exist_ok=True)
        with open(os.path.join(OUT, "evidence", self.pid + ".json"), "w") as fh:
            json.dump(ev, fh, indent=1, default=str)
        for fid, n in sorted(self.known_hits.items()):
            f = next(x for x in self.known if x["id"] == fid)
            print("KNOWN-FINDING: property=%s %s: %s (seen on %d cases)" % (f["property"], fid, f["what"], n))
        for d in self.drift[:5]:
            print("MODEL-DRIFT %s" % (json.dumps(d, default=str)[:400]))
        seen = set()
        for why, path in self.violations:
            if path in seen:
                continue
            seen.add(path)
            if len(seen) <= 10:
                print("VIOLATION property=%s replay=%s" % (self.pid, path))
                print("  " + why[:300])
        print("%s %s: states=%d transitions=%d behaviours_replayed=%d traces_validated=%d evaluations=%d "
              "violations=%d known=%d wall=%.1fs" % (self.pid, self.tier, self.states, self.transitions,
                                                     self.behaviours, self.traces, self.evaluations,
                                                     len(self.violations), sum(self.known_hits.values()), wall))
        return 1 if self.violations else 0


# ---- known-finding signatures: a tiny predicate language over the failing case (a dict)
def match_signature(sig, case):
    """sig: {"all": [cond...]} ; cond: {"path": "a.b", "op": "eq|in|contains|true|false|exists", "value": ...}"""
    try:
        for c in sig.get("all", []):
            v = case
            for part in c["path"].split("."):
                v = v[part] if isinstance(v, dict) else v[int(part)]
            op = c.get("op", "eq")
            if op == "eq" and v != c["value"]:
                return False
            if op == "in" and v not in c["value"]:
                return False
            if op == "contains" and c["value"] not in v:
                return False
            if op == "true" and not v:
                return False
            if op == "false" and v:
                return False
        return True
    except (KeyError, IndexError, TypeError, ValueError):
        return False


def tla_str(s):
    return '"' + s.replace("\\", "\\\\").replace('"', '\\"') + '"'


def tla_val(v):
    """Python value -> TLA+ literal (for cfg-free constant definitions written into MC modules)."""
    if isinstance(v, bool):
        return "TRUE" if v else "FALSE"
    if isinstance(v, int):
        return str(v)
    if isinstance(v, str):
        return tla_str(v)
    if isinstance(v, (list, tuple)):
        return "<<" + ", ".join(tla_val(x) for x in v) + ">>"
    if isinstance(v, (set, frozenset)):
        return "{" + ", ".join(tla_val(x) for x in sorted(v, key=repr)) + "}"
    if isinstance(v, dict):
        if not v:
            return "<<>>"
        return "[" + ", ".join("%s |-> %s" % (k, tla_val(x)) for k, x in v.items()) + "]"
    raise TypeError(v)
