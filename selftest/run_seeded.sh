#!/bin/bash
# usage: run_seeded.sh <seeded dir with patch.diff [demo.py|demo.sh]> <check ids...>
# Applies the patch to a scratch copy of /repo (never to /repo itself), confirms that the 69 tests still pass
# and that the demonstration fails with / passes without the change, then runs the given checks against the copy.
sd=$(realpath "$1"); shift
d=$(mktemp -d /tmp/seedrun_XXXX)
trap 'rm -rf "$d"' EXIT
git -C /repo archive HEAD | tar -x -C "$d"
( cd "$d" && git init -q && git add -A >/dev/null 2>&1 && git -c user.email=x@x -c user.name=x commit -qm base >/dev/null 2>&1 )
demo=""
[ -f "$sd/demo.py" ] && demo="/venv/bin/python $sd/demo.py"
[ -f "$sd/demo.sh" ] && demo="bash $sd/demo.sh"
if [ -n "$demo" ]; then
  CMINX_SRC=$d/src CMINX_REPO=$d $demo >/dev/null 2>&1; echo "demo without change: exit $?"
fi
# (a later fix: commit may have shifted the context of an older patch: fall back to patch(1) with fuzz)
if ! ( cd "$d" && git apply "$sd/patch.diff" 2>/dev/null ); then
  if ! ( cd "$d" && patch -p1 -s --fuzz=3 --no-backup-if-mismatch < "$sd/patch.diff" ); then echo "PATCH DOES NOT APPLY"; exit 3; fi
fi
t=$(cd "$d" && PYTHONPATH=$d/src timeout 900 /venv/bin/python -m pytest -q -p no:cacheprovider 2>&1 | tail -1)
echo "tests with change: $t"
if [ -n "$demo" ]; then
  CMINX_SRC=$d/src CMINX_REPO=$d $demo >/dev/null 2>&1; echo "demo with change: exit $?"
fi
for c in "$@"; do
  out=$(VERIF_OUT=$d/_verif_out CMINX_SRC=$d/src CMINX_REPO=$d /verif/bin/check $c --tier quick 2>&1 | grep -E "^C[0-9]+ quick|MACHINERY" | tail -1)
  echo "CHECK $c: $out"
done
