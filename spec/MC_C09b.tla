------------------------------- MODULE MC_C09b -------------------------------
EXTENDS Aggregator, AggAlphabet
\* overloads: one member (and constructor) name declared several times in a class, distinguished only by the declared
\* types, implemented by definitions with the same or different parameter names - every declaration is listed, in order
Cmds == <<
  C("cpp_class", <<"C">>), C("cpp_end_class", <<>>),
  C("cpp_member", <<"dupm", "C", "int">>), C("cpp_member", <<"dupm", "C", "str">>),
  C("cpp_constructor", <<"dupc", "C", "int">>),
  C("function", <<"${dupm}", "self", "a">>), C("macro", <<"${dupm}", "self", "a">>), C("function", <<"${dupc}", "self", "a">>),
  C("endfunction", <<>>), C("endmacro", <<>>),
  \* a signature far longer than any line-length limit: one heading line, every parameter paired with its type
  C("cpp_member", <<"@", "C", "int", "str", "bool", "desc", "list">>),
  C("function", <<"${@}", "self", "a_rather_long_parameter_name_one", "a_rather_long_parameter_name_two", "a_rather_long_parameter_name_three",
                  "a_rather_long_parameter_name_four", "a_rather_long_parameter_name_five">>)
>>
Pre == <<[ci |-> CHOOSE j \in 1..Len(Cmds) : Cmds[j].k = "cpp_class", d |-> FALSE]>>
MCPats == [f |-> FALSE, m |-> FALSE, x |-> FALSE]
ASSUME PrintT(<<"PATS", ToJson(MCPats)>>)
NoDev == {}
CurrentDev == {}
Both == {TRUE, FALSE}
OnlyAllOn == {AllOn}
=============================================================================
