------------------------------- MODULE MC_C20 -------------------------------
EXTENDS RstWriter
Texts == { <<[lead |-> 0, w |-> "a"]>>,
           <<[lead |-> 2, w |-> "b"], [lead |-> 0, w |-> ""], [lead |-> 1, w |-> "c"]>>,
           <<[lead |-> 0, w |-> ""]>> }
Titles == { [id |-> "T", len |-> 1], [id |-> "Title", len |-> 5], [id |-> "Ünï", len |-> 3],
            \* wide characters (%W) and a combining accent (~), substituted by the harness: the frame has the length of the title in characters
            [id |-> "%W%Wa", len |-> 3], [id |-> "Cafe~", len |-> 5],
            [id |-> "", len |-> 0] }     \* the empty title: framed by two empty lines
Items == { <<"i">>, <<"i", "j">> }
AllOps == {"text", "field", "blist", "elist", "directive", "option", "set_title", "clear", "to_text"}
NoTitleOps == AllOps \ {"set_title", "elist"}
\* growth beyond C20: section() and doctest() (conformance only)
\* five directives deep (indent levels beyond what the pipeline itself produces)
DeepOps == {"directive", "text", "field", "option", "to_text"}
\* a chain of directives with one element at the bottom: exhaustive to six levels (the fixed title keeps it small)
ChainOps == {"directive", "field", "to_text"}
OneTitle == { [id |-> "T", len |-> 1] }
OneText == { <<[lead |-> 0, w |-> "a"]>> }
GrowthOps == {"text", "directive", "doctest", "section", "field", "to_text"}
=============================================================================
