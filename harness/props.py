"""Per-property checks.  Each function takes a lib.Run, does its work and returns the `rule` text."""
import json

import lib
from aggfamily import cfg, replay

TAGS = ("BEH", "CMDS", "PATS")


def tlc_agg(run, name, module, cfgtext, **kw):
    res = lib.run_tlc(module, cfgtext, tags=TAGS, **kw)
    run.add_tlc(name, res, vacuity_exempt=kw.get("vacuity_exempt", ()))
    return res


def c03(run):
    q = run.tier == "quick"
    res = tlc_agg(run, "MC_C03", "MC_C03",
                  cfg(["C03_Signatures", "StackRefinesInv", "NoFailure"], maxlen=6 if q else 8, maxdepth=3))
    n = replay(run, "C03", res, run.seed, limit=None if q else 60000)
    run.assumptions += ["re.sub and str.upper are trusted library functions (their results are inputs of the spec)",
                        "strip patterns are drawn from {'', '^_p_'}; trigger string is ':keyword'"]
    return ("TLC enumerates every well-formed program over the MC_C03 alphabet (definitions with 0-2 parameters, "
            "cmake_parse_arguments, member/test declarations + implementing definitions, ordinary commands; "
            "each with/without doccomment) up to the length/depth bound, checks C03_Signatures and StackRefines on the "
            "specification, and every terminal behaviour is concretised and replayed through the real Documenter; "
            "distinct = distinct abstract programs")


CHECKS = {"C03": c03}


def replay_file(run, pid, path):
    body = json.load(open(path))
    print(json.dumps(body, indent=1)[:4000])
    return 0
