----------------------------- MODULE TraceParse -----------------------------
(***************************************************************************)
(* Binding B for the parser layer: the token kinds the real lexer produced *)
(* for a file TLC did not choose (repository fixtures, random modules, the *)
(* modules shipped with CMake) are fed to the machine of CMakeParse one by *)
(* one; the outcome (accepted / syntax error) and, for accepted files, the *)
(* listener calls the real aggregator received (recorded by                 *)
(* harness/parseh.py) must be the ones the machine logs.  One TLC run       *)
(* validates a batch; Init picks the trace.                                 *)
(***************************************************************************)
EXTENDS CMakeParse, IOUtils

NoDevT == {}
Batch == JsonDeserialize(IOEnv.TRACE_FILE)
Traces == Batch.traces

VARIABLES tid, l, verdict
tvars == <<tid, l, verdict>>
Tr == Traces[tid]

TInit == /\ tid \in 1..Len(Traces) /\ l = 1 /\ verdict = "run" /\ Init

\* one token of the recorded stream, then the end of the file
TStep ==
  /\ verdict = "run" /\ status = "run"
  /\ IF l <= Len(Tr.toks) THEN Read(Tr.toks[l]) /\ l' = l + 1 ELSE Eof /\ UNCHANGED l
  /\ UNCHANGED <<tid, verdict>>

Same(a, b) == Len(a) = Len(b) /\ \A j \in 1..Len(a) : a[j] = b[j]
FirstDiff(a, b) == IF \E j \in 1..Len(a) : j <= Len(b) /\ a[j] # b[j]
                   THEN CHOOSE j \in 1..Len(a) : j <= Len(b) /\ a[j] # b[j] /\ \A k \in 1..(j-1) : a[k] = b[k]
                   ELSE (IF Len(a) < Len(b) THEN Len(a) ELSE Len(b)) + 1
TFinish ==
  /\ verdict = "run" /\ status # "run"
  /\ LET okStatus == status = Tr.status
         okEvents == Tr.status # "accept" \/ ~Tr.observable \/ Same(events, Tr.events)
         d == IF okEvents THEN 0 ELSE FirstDiff(events, Tr.events)
     IN PrintT(<<IF okStatus /\ okEvents THEN "END" ELSE "REJ",
                 ToJson([tid |-> tid, id |-> Tr.id, tokens |-> Len(Tr.toks), model_status |-> status, observed_status |-> Tr.status,
                         stopped_at |-> Len(toks), nevents |-> Len(events), first_difference |-> d,
                         model_event |-> IF d > 0 /\ d <= Len(events) THEN events[d] ELSE [e |-> "none"],
                         observed_event |-> IF d > 0 /\ d <= Len(Tr.events) THEN Tr.events[d] ELSE [e |-> "none"],
                         wellformed |-> OneEventPerCommand /\ DocAttachment /\ DocumentedThenCommand /\ EventsInSourceOrder])>>)
  /\ verdict' = "done" /\ UNCHANGED <<tid, l, vars>>

TNext == TStep \/ TFinish
=============================================================================
