"""Binding B for the aggregator: record real executions callback by callback, have TLC validate them.

The recorder is a test double (subclass of DocumentationAggregator installed in a Documenter);
no source hook is needed - every linearisation point is a public callback boundary and the
abstract state is a projection of public attributes.
"""
import json
import os
import random
import re
import tempfile

import lib

KNOWN = {"function", "macro", "endfunction", "endmacro", "cmake_parse_arguments", "ct_add_test", "ct_add_section",
         "set", "cpp_class", "cpp_end_class", "cpp_member", "cpp_constructor", "cpp_attr", "add_test", "option",
         "generic_command"}
FLAG_KINDS = ["function", "macro", "cpp_class", "cpp_attr", "cpp_constructor", "cpp_member",
              "ct_add_test", "add_test", "ct_add_section", "option"]


def make_recorder():
    from cminx.aggregator import DocumentationAggregator
    from cminx.parser.CMakeParser import CMakeParser
    import cminx.documentation_types as dt

    class Rec(DocumentationAggregator):
        def __init__(self, settings):
            super().__init__(settings)
            self.events = []
            self._n = 0
            self._ctx_idx = {}
            self._src = {}        # id(entry object) -> src
            self._keep = []
            self._last = {}       # src -> last seen entry projection
            self._errs = 0
            self._doc_of = {}
            outer = self

            class H:
                def error(self_, *a, **k):
                    outer._errs += 1

                def warning(self_, *a, **k):
                    pass

                def __getattr__(self_, n):
                    return lambda *a, **k: None
            self.logger = H()

        # ---- projection of the public state
        def _all_entries(self):
            out = []
            for e in self._documented():
                out.append(e)
                if isinstance(e, dt.ClassDocumentation):
                    out.extend(e.constructors)
                    out.extend(e.members)
                    out.extend(e.attributes)
            if self.documented_awaiting_function_def is not None:
                out.append(self.documented_awaiting_function_def)
            return out

        def _documented(self):
            # the module entry (enterDocumented_module) is not part of the command machine
            return [e for e in self.documented if not isinstance(e, dt.ModuleDocumentation)]

        def _idx(self, obj):
            return 0 if obj is None else self._src.get(id(obj), -1)

        def _entry(self, e):
            s = self._src[id(e)]
            r = {"k": "?", "src": s, "d": bool(self._doc_of.get(s, False)), "name": e.name if e.name is not None else "",
                 "params": [], "kw": False,
                 "ismacro": False, "vals": [], "expfail": False, "ptypes": [], "pclass": "", "hasdef": False,
                 "ctors": [], "members": [], "attrs": [], "inner": []}
            if isinstance(e, dt.FunctionDocumentation):
                r.update(k="function", params=list(e.params), kw=bool(e.has_kwargs))
            elif isinstance(e, dt.MacroDocumentation):
                r.update(k="macro", params=list(e.params), kw=bool(e.has_kwargs))
            elif isinstance(e, dt.OptionDocumentation):
                r.update(k="option", vals=[e.help_text], hasdef=e.value is not None,
                         params=[e.value] if e.value is not None else [])
            elif isinstance(e, dt.VariableDocumentation):
                r.update(k="variable", vals=list(self._vals.get(s, [])))
            elif isinstance(e, dt.GenericCommandDocumentation):
                r.update(k="generic", params=list(e.params))
            elif isinstance(e, dt.ClassDocumentation):
                r.update(k="class", params=list(e.superclasses), ctors=[self._idx(m) for m in e.constructors],
                         members=[self._idx(m) for m in e.members], attrs=[self._idx(m) for m in e.attributes],
                         inner=[self._idx(m) for m in e.inner_classes])
            elif isinstance(e, dt.SectionDocumentation):
                r.update(k="section", expfail=bool(e.expect_fail), params=list(e.params), ismacro=bool(e.is_macro))
            elif isinstance(e, dt.TestDocumentation):
                r.update(k="test", expfail=bool(e.expect_fail), params=list(e.params), ismacro=bool(e.is_macro))
            elif isinstance(e, dt.CTestDocumentation):
                r.update(k="ctest", params=list(e.params))
            elif isinstance(e, dt.MethodDocumentation):
                r.update(k="ctor" if e.is_constructor else "method", pclass=e.parent_class, ptypes=list(e.param_types),
                         params=list(e.params), ismacro=bool(e.is_macro))
            elif isinstance(e, dt.AttributeDocumentation):
                r.update(k="attr", pclass=e.parent_class, hasdef=e.default_value is not None,
                         vals=[e.default_value] if e.default_value is not None else [])
            elif isinstance(e, dt.ModuleDocumentation):
                r.update(k="module")
            return r

        _vals = {}

        def _post(self, i, exc=""):
            for e in self._all_entries():
                if id(e) not in self._src:
                    self._src[id(e)] = i
                    self._keep.append(e)
            chg = []
            for e in self._all_entries():
                p = self._entry(e)
                if self._last.get(p["src"]) != p:
                    self._last[p["src"]] = p
                    chg.append({"src": p["src"], "e": p})
            seen = set()
            chg2 = []
            for c in chg:      # an entry reachable twice is reported once
                if c["src"] not in seen:
                    seen.add(c["src"])
                    chg2.append(c)
            return {"chg": chg2, "top": [self._idx(e) for e in self._documented()],
                    "cls": [self._idx(c) for c in self.documented_classes_stack],
                    "defs": [{"e": self._idx(d.documentation), "sd": bool(d.should_document)}
                             for d in self.definition_command_stack],
                    "aw": self._idx(self.documented_awaiting_function_def), "errs": self._errs, "exc": exc}

        def _cmd(self, inv, documented, docstring):
            name = inv.Identifier().getText().lower()
            a = [p.getText() for p in inv.single_argument()]
            inp = self.settings.input
            own = {"function": inp.function_parameter_name_strip_regex,
                   "macro": inp.macro_parameter_name_strip_regex}.get(name, None)
            s = [re.sub(own, "", t) for t in a] if own is not None else list(a)
            x = [re.sub(inp.member_parameter_name_strip_regex, "", t) for t in a]
            ordd = [c.getText() for c in inv.getChildren()
                    if isinstance(c, (CMakeParser.Single_argumentContext, CMakeParser.Compound_argumentContext))]
            return {"k": name if name in KNOWN else "other", "nm": name, "d": documented, "a": a,
                    "up": [t.upper() for t in a], "s": s, "x": x,
                    "trig": bool(documented and inp.kwargs_doc_trigger_string in docstring),
                    "cpds": [c.getText() for c in inv.compound_argument()], "ord": ordd}

        def _index(self, inv):
            if inv not in self._ctx_idx:
                self._n += 1
                self._ctx_idx[inv] = self._n
            return self._ctx_idx[inv]

        def enterDocumented_command(self, ctx):
            inv = ctx.command_invocation()
            i = self._index(inv)
            self._doc_of[i] = True
            text = ctx.bracket_doccomment().getText()
            doc = DocumentationAggregator.clean_doc_lines(text.split("\n"))
            cmd = self._cmd(inv, True, doc)
            if cmd["k"] == "set":
                self._vals[i] = cmd["a"][1:]
            exc = ""
            try:
                super().enterDocumented_command(ctx)
            except Exception as e:
                exc = type(e).__name__
                self.events.append({"cb": "doc", "i": i, "cmd": cmd, "post": self._post(i, exc)})
                raise
            self.events.append({"cb": "doc", "i": i, "cmd": cmd, "post": self._post(i)})

        def enterCommand_invocation(self, ctx):
            i = self._index(ctx)
            documented = bool(self._doc_of.get(i, False))
            doc = ""
            if documented:
                text = ctx.parentCtx.bracket_doccomment().getText()
                doc = DocumentationAggregator.clean_doc_lines(text.split("\n"))
            cmd = self._cmd(ctx, documented, doc)
            if cmd["k"] == "set" and not documented:
                self._vals[i] = cmd["a"][1:]
            exc = ""
            try:
                super().enterCommand_invocation(ctx)
            except Exception as e:
                exc = type(e).__name__
                self.events.append({"cb": "inv", "i": i, "cmd": cmd, "post": self._post(i, exc)})
                raise
            self.events.append({"cb": "inv", "i": i, "cmd": cmd, "post": self._post(i)})

    return Rec


class Unobservable(Exception):
    """the aggregator no longer exposes the attributes the recorder projects (internal refactoring)"""


def record(src, settings):
    """Run the real parser + walker over CMake text with the recording aggregator. Returns events."""
    import contextlib
    import io
    from antlr4 import InputStream, CommonTokenStream, ParseTreeWalker
    from cminx.parser.CMakeLexer import CMakeLexer
    from cminx.parser.CMakeParser import CMakeParser
    Rec = make_recorder()
    Rec._vals = {}
    with contextlib.redirect_stderr(io.StringIO()):
        parser = CMakeParser(CommonTokenStream(CMakeLexer(InputStream(src))))
        tree = parser.cmake_file()
        rec = Rec(settings)
        try:
            ParseTreeWalker().walk(rec, tree)
        except (AttributeError, TypeError) as e:
            # the recorder reads internal attributes; if they are gone the execution cannot be projected
            import traceback
            tb = traceback.extract_tb(e.__traceback__)
            if any(fr.filename.endswith("aggtrace.py") and fr.name in ("_post", "_entry", "_all_entries", "_idx", "_documented") for fr in tb):
                raise Unobservable(str(e))
        except Exception:
            pass
    return rec.events


# ---------------------------------------------------------------- random programs, richer than the model alphabet
WORDS = ["alpha", "beta", "gamma", "delta", "eps", "zeta", "eta", "theta", "iota", "kappa"]


def gen_program(rng, n, in_domain=True):
    """A random CMake module as text: nesting of functions, macros, classes, tests with sections, members."""
    out = []
    stack = []
    counter = [0]

    def uid(p):
        counter[0] += 1
        return "%s_%d" % (p, counter[0])

    def args(lo, hi):
        k = rng.randint(lo, hi)
        return [rng.choice(["_p_" + rng.choice(WORDS), rng.choice(WORDS), '"%s"' % rng.choice(WORDS), "${%s}" % rng.choice(WORDS),
                            "[[%s]]" % rng.choice(WORDS)]) for _ in range(k)]

    def doc():
        lines = ["#[[[", "# " + rng.choice(WORDS) + " " + rng.choice(WORDS)]
        if rng.random() < 0.25:
            lines.append("# :keyword foo: bar")
        lines.append("#]]")
        return lines

    def emit(line, documented=False):
        ind = "  " * len(stack)
        if documented:
            out.extend(ind + d for d in doc())
        out.append(ind + line)

    def definition(impl_of=None):
        kind = rng.choice(["function", "macro"])
        name = '"${%s}"' % impl_of if impl_of else uid("f")
        a = (["self"] if impl_of else []) + args(0, 3)
        d = rng.random() < (0.05 if impl_of else 0.4)
        if impl_of and in_domain:
            d = False
        emit("%s(%s)" % (kind if rng.random() < 0.8 else kind.upper(), " ".join([name] + a)), d)
        stack.append(kind)

    steps = 0
    while steps < n:
        steps += 1
        choices = ["def", "other", "other", "set", "option", "add_test", "cpa", "class", "test"]
        if stack:
            choices += ["end", "end"]
        if "cpp_class" in stack:
            choices += ["member", "member", "attr", "ctor"]
        if "function" in stack or "macro" in stack:
            choices += ["section", "cpa"]
        ch = rng.choice(choices)
        d = rng.random() < 0.4
        if ch == "def":
            definition()
        elif ch == "end":
            k = stack.pop()
            emit({"function": "endfunction()", "macro": "endmacro()", "cpp_class": "cpp_end_class()"}[k])
        elif ch == "other":
            nm = rng.choice(["message", "if", "endif", "foreach", "endforeach", "include", "list", "return", "MESSAGE"])
            if rng.random() < 0.2:
                emit("%s(NOT (%s AND %s) OR %s)" % (nm, rng.choice(WORDS), rng.choice(WORDS), rng.choice(WORDS)), d)
            else:
                emit("%s(%s)" % (nm, " ".join(args(0, 4))), d)
        elif ch == "set":
            emit("set(%s)" % " ".join([uid("v")] + args(0, 3)), d)
        elif ch == "option":
            emit("option(%s)" % " ".join([uid("o"), '"help %s"' % rng.choice(WORDS)] + (["ON"] if rng.random() < 0.5 else [])), d)
        elif ch == "add_test":
            nm = uid("t")
            a = ["NAME", nm, "COMMAND", rng.choice([nm, "prog"])] + args(0, 2)
            if rng.random() < 0.3:
                a = ["COMMAND", "prog", "NAME", nm]
            emit("add_test(%s)" % " ".join(a), d)
        elif ch == "cpa":
            emit('cmake_parse_arguments(x "" "" "" ${ARGN})')
        elif ch == "class":
            emit("cpp_class(%s)" % " ".join([uid("C")] + [rng.choice(WORDS) for _ in range(rng.randint(0, 2))]), d)
            stack.append("cpp_class")
        elif ch == "attr":
            emit("cpp_attr(%s)" % " ".join(["C", uid("a")] + args(0, 1)), d)
        elif ch in ("member", "ctor", "test", "section"):
            nm = uid("m")
            if ch == "member":
                emit("cpp_member(%s)" % " ".join([nm, "C"] + [rng.choice(["int", "str", "args", "desc"]) for _ in range(rng.randint(0, 3))]), d)
            elif ch == "ctor":
                emit("cpp_constructor(%s)" % " ".join(["CTOR", "C"] + [rng.choice(["int", "str"]) for _ in range(rng.randint(0, 2))]), d)
            else:
                a = ["NAME", nm] + (["EXPECTFAIL"] if rng.random() < 0.4 else [])
                if rng.random() < 0.3:
                    a = a[2:] + a[:2]
                emit("%s(%s)" % ("ct_add_test" if ch == "test" else "ct_add_section", " ".join(a)), d)
            if in_domain or rng.random() < 0.8:
                definition(impl_of=nm)
            steps += 1
        if not in_domain and rng.random() < 0.05:
            emit(rng.choice(["cpp_member(x)", "option(o)", "set()", "ct_add_test(NAME)", "cpp_attr(C)", "cpp_end_class()",
                             "endfunction()", "add_test(x NAME)"]))
    if in_domain or rng.random() < 0.8:
        while stack:
            k = stack.pop()
            emit({"function": "endfunction()", "macro": "endmacro()", "cpp_class": "cpp_end_class()"}[k])
    return "\n".join(out) + "\n"


def features_from_events(events, inc):
    f = {"doc_impl_def": False, "doc_class_flag_off": False}
    pend = False
    for e in events:
        if e["cb"] != "inv":
            continue
        c = e["cmd"]
        if pend and c["k"] in ("function", "macro") and c["d"]:
            f["doc_impl_def"] = True
        pend = c["k"] in ("cpp_member", "cpp_constructor", "ct_add_test", "ct_add_section")
        if c["k"] == "cpp_class" and c["d"] and not inc.get("cpp_class", True):
            f["doc_class_flag_off"] = True
    return f


def random_batch(seed, n, flags="default", pats=None, maxlen=40, ood_share=0.25, fixtures=True):
    """Record n random programs (and the repository's own fixtures) with the real aggregator."""
    import agg
    import glob
    rng = random.Random(seed)
    traces = []
    for i in range(n):
        src = gen_program(rng, rng.randint(3, maxlen), in_domain=rng.random() >= ood_share)
        inc = {k: (True if flags == "default" else rng.random() < 0.6) for k in FLAG_KINDS}
        if flags != "default" and i % 8 == 7:
            inc = {k: False for k in FLAG_KINDS}          # everything off at once
        p = pats if pats is not None else {"f": rng.random() < 0.5, "m": rng.random() < 0.5, "x": rng.random() < 0.5}
        try:
            ev = record(src, agg.make_settings(inc, p))
        except Unobservable as e:
            return [{"unobservable": str(e)}]
        traces.append({"id": "random-%d-%d" % (seed, i), "inc": inc, "events": ev, "source": src,
                       "features": features_from_events(ev, inc)})
    if fixtures:
        files = []
        for pat in ("tests/test_samples/*.cmake", "tests/examples/*.cmake", "tests/examples/more_cmake_files/*.cmake",
                    "tests/cmake_input/*.cmake", "cmake/*.cmake", "tests/examples/more_cmake_files/*/*.cmake"):
            files += sorted(glob.glob(os.path.join(lib.REPO, pat)))
        for f in files:
            try:
                src = open(f, encoding="utf-8").read()
            except Exception:
                continue
            inc = {k: True for k in FLAG_KINDS}
            try:
                ev = record(src, agg.make_settings(inc, {}))
            except Unobservable as e:
                return [{"unobservable": str(e)}]
            traces.append({"id": os.path.relpath(f, lib.REPO), "inc": inc, "events": ev, "source": src,
                           "features": features_from_events(ev, inc)})
    return traces


def validate_batch(run, traces, props=("C02", "C03", "C08", "C09", "C11"), judge_pid=None):
    """traces: list of {"id", "inc", "events", "source"}; TLC validates them; results folded into run."""
    if traces and "unobservable" in traces[0]:
        run.drifted({"aggregator_traces": "internal state of DocumentationAggregator is no longer observable by the recorder "
                                          "(binding B skipped; the verdict rests on binding A)", "detail": traces[0]["unobservable"]})
        return
    traces = [t for t in traces if t["events"]]
    if not traces:
        return
    tmp = tempfile.mkdtemp(prefix="verif_trace_")
    path = os.path.join(tmp, "batch.json")
    with open(path, "w") as fh:
        json.dump({"traces": [{"id": t["id"], "inc": t["inc"], "events": t["events"]} for t in traces]}, fh)
    try:
        res = lib.run_tlc("TraceAggregator", "CONSTANT Dev <- CurrentDev\nINIT Init\nNEXT Next\n",
                          env={"TRACE_FILE": path}, tags=("END", "REJ"), coverage=False, workers=lib.NCPU)
    finally:
        import shutil
        shutil.rmtree(tmp, ignore_errors=True)
    ends = {e["tid"]: e for e in res.lines.get("END", [])}
    if len(ends) != len(traces):
        raise lib.MachineryError("trace validation lost traces: %d END lines for %d traces" % (len(ends), len(traces)))
    run.states += res.distinct
    run.transitions += res.generated
    run.tlc_runs.append({"config": "TraceAggregator", "distinct_states": res.distinct,
                         "states_generated": res.generated, "wall_s": round(res.wall, 1), "traces": len(traces)})
    rej_by_tid = {}
    for r in res.lines.get("REJ", []):
        rej_by_tid.setdefault(r["tid"], []).append(r)
    pid = judge_pid or run.pid
    stats = run.notes.setdefault("trace_verdicts", {"ok": 0, "out": 0, "viol": 0, "rejected_events": 0})
    for n, t in enumerate(traces):
        e = ends[n + 1]
        run.traces += 1
        v = e[pid]
        stats[v] += 1
        if e["rejs2"]:
            stats["rejected_events"] += e["rejs2"]
            run.drifted({"trace": t["id"], "first_rejections": rej_by_tid.get(n + 1, [])[:1]})
        if v == "viol":
            case = {"source": t["source"], "inc": t["inc"], "trace": t["id"], "features": t.get("features", {}),
                    "obs_equals_impl_model": e["rejs2"] == 0}
            run.violation(case, "property predicate %s of spec/TraceAggregator.tla on the observed state" % pid,
                          {"verdicts": e, "rejections": rej_by_tid.get(n + 1, [])[:2]},
                          "recorded execution violates %s (evaluated by TLC on the observed entries)" % pid)
    return res
