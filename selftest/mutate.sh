#!/bin/bash
# usage: mutate.sh <name> <file relative to the repo root (src/cminx/... or cmake/...)> <python-expr old> <new> -- checks...
# copies /repo/src to a scratch dir, applies one textual replacement, runs the given checks against it
set -e
name=$1; file=$2; old=$3; new=$4; shift 4
d=$(mktemp -d /tmp/mut_XXXX)
cp -r /repo/src $d/src
cp -r /repo/cmake $d/cmake
/venv/bin/python - "$d/$file" "$old" "$new" <<'PY'
import sys
p,old,new=sys.argv[1:4]
s=open(p).read()
assert old in s, "pattern not found"
open(p,'w').write(s.replace(old,new,1))
PY
for c in "$@"; do
  out=$(VERIF_OUT=$d/_verif_out CMINX_SRC=$d/src CMINX_REPO=$d /verif/bin/check $c --tier quick 2>&1 | tail -1)
  echo "MUTANT $name $c: $out"
done
rm -rf $d
