"""C01 / C04 (doccomment half): DocClean.tla behaviours replayed on clean_doc_lines and through the pipeline."""
import json
import random
import re
from concurrent.futures import ProcessPoolExecutor

import lib

LETTERS = "abcxyzQRS"
MARKUP = ["*", "`", "|", "_", "\\", "<", ">", "&", "~", "^", "**", "``"]
# (incl. characters a Unicode normalisation would replace: OHM SIGN, KELVIN SIGN, a CJK compatibility ideograph, e + combining acute)
NONASCII = ["é", "ß", "漢", "🙂", "ñ", "Ω", "\u2126", "\u212a", "\uf900", "e\u0301"]


def conc_chars(seq, rng):
    out = []
    for ch in seq:
        if ch == "a":
            # the "letter" class of the doc text also stands for the characters reST gives a meaning to: a doccomment
            # line reaches the page as written, not escaped, wrapped or re-flowed
            out.append(rng.choice(MARKUP) if rng.random() < 0.3 else rng.choice(LETTERS))
        elif ch == "1":
            out.append(rng.choice("0123456789"))
        elif ch == "e":
            out.append(rng.choice(NONASCII))
        elif ch == "@":
            out.append("@module")
        else:
            out.append(ch)
    return "".join(out)


def token_text(ind, first, body, leader):
    """The doccomment token as the lexer delivers it (first line starts at '#'), as one string."""
    lines = ["#[[[" + first]
    for t in body:
        if leader == "hash":
            lines.append(ind + ("#" if t == "" else "# " + t))
        else:
            lines.append(ind + t)
    lines.append(ind + "#]]")
    return "\n".join(lines)


def function_level(beh, rng):
    from cminx.aggregator import DocumentationAggregator
    ind = conc_chars(beh["ind"], rng)
    first = conc_chars(beh["first"], rng)
    body = [conc_chars(t, rng) for t in beh["body"]]
    tok = token_text(ind, first, body, beh["leader"])
    got = DocumentationAggregator.clean_doc_lines(tok.split("\n")).split("\n")
    flat = DocumentationAggregator.clean_doc_lines(token_text("", first, body, beh["leader"]).split("\n")).split("\n")
    return tok, got, flat, body


KINDS = ["function", "macro", "set", "option", "generic", "class", "attr", "member", "ctor", "test", "section", "add_test", "module"]


def snippet(kind, i, doc_lines, block_ind, rng):
    """CMake text with one documented item of `kind`; returns (text, directive name, directive arg prefix)."""
    ind = block_ind
    doc = [ind + "#[[["] + [ind + ("#" if t == "" else "# " + t) for t in doc_lines] + [ind + "#]]"]
    d = "\n".join(doc) + "\n"
    n = "n%d" % i
    if kind == "function":
        return d + ind + "function(%s a)\n%sendfunction()\n" % (n, ind), "function", n + "("
    if kind == "macro":
        return d + ind + "macro(%s a)\n%sendmacro()\n" % (n, ind), "function", n + "("
    if kind == "set":
        return d + ind + "set(%s v)\n" % n, "data", n
    if kind == "option":
        return d + ind + 'option(%s "help" ON)\n' % n, "data", n
    if kind == "generic":
        return d + ind + "message(%s)\n" % n, "function", "message(" + n
    if kind == "class":
        return d + ind + "cpp_class(%s)\n%scpp_end_class()\n" % (n, ind), "py:class", n
    if kind == "attr":
        return "cpp_class(K%d)\n" % i + d + ind + "cpp_attr(K%d %s)\ncpp_end_class()\n" % (i, n), "py:attribute", n
    if kind == "member":
        return "cpp_class(K%d)\n" % i + d + ind + "cpp_member(%s K%d int)\n%sfunction(\"${%s}\" self a)\n%sendfunction()\ncpp_end_class()\n" % (n, i, ind, n, ind), "py:method", n + "("
    if kind == "ctor":
        return "cpp_class(K%d)\n" % i + d + ind + "cpp_constructor(%s K%d int)\n%sfunction(\"${%s}\" self a)\n%sendfunction()\ncpp_end_class()\n" % (n, i, ind, n, ind), "py:method", n + "("
    if kind == "test":
        return d + ind + "ct_add_test(NAME %s)\n%sfunction(${%s})\n%sendfunction()\n" % (n, ind, n, ind), "function", n + "("
    if kind == "section":
        return "ct_add_test(NAME t%d)\nfunction(${t%d})\n" % (i, i) + d + ind + "ct_add_section(NAME %s)\n%sfunction(${%s})\n%sendfunction()\nendfunction()\n" % (n, ind, n, ind), "function", n + "("
    if kind == "add_test":
        return d + ind + "add_test(NAME %s COMMAND prog)\n" % n, "function", n + "("
    raise ValueError(kind)


def find_nodes(items, name, argprefix, out, depth=0):
    for it in items:
        if it[0] == "dir":
            nd = it[1]
            if nd.name == name and nd.arg.startswith(argprefix):
                out.append(nd)
            find_nodes(nd.items, name, argprefix, out, depth + 1)
    return out


def pipeline_level(beh, n, rng):
    """Attach the body (between two marker lines) to one entry kind at a nesting depth; check the page."""
    import agg
    from rstparse import Page
    kind = KINDS[n % len(KINDS)]
    depth = (n // len(KINDS)) % 3
    body = [conc_chars(t, rng) for t in beh["body"]]
    if any("]]" in t for t in body):
        return None
    # every second case has no marker in front of the body: the body's own first line (which may be empty or begin
    # with blanks) is then the first line of the doc text
    shield = (n // (len(KINDS) * 3)) % 2 == 0
    docl = (["w%dbegin" % n] if shield else []) + body + ["w%dend" % n]
    block_ind = conc_chars(beh["ind"], rng)
    if kind == "module":
        # (the module doccomment may be indented like any other block)
        lines = [block_ind + "#[[[ @module"] + [block_ind + ("#" if t == "" else "# " + t) for t in docl] + [block_ind + "#]]"]
        src = "\n".join(lines) + "\nfunction(f)\nendfunction()\n"
        dname, aprefix = "module", ""
    else:
        core, dname, aprefix = snippet(kind, n, docl, block_ind, rng)
        pre = post = ""
        for k in range(depth):
            pre += ["function(outer%d_%d)\n" % (n, k), "if(TRUE)\n", "macro(om%d_%d)\n" % (n, k)][(n + k) % 3]
            post = ["endfunction()\n", "endif()\n", "endmacro()\n"][(n + k) % 3] + post
        src = "include_guard()\n" + pre + core + post
    status, text, _, err = agg.run_real(src, agg.make_settings(), title="t", module="m")
    case = {"kind": kind, "depth": depth, "source": src}
    if status != "ok":
        return case, "page", status + " " + text, "the pipeline raised on a canonical doccomment"
    page = Page(text)
    nodes = find_nodes(page.items, dname, aprefix, [])
    if len(nodes) != 1:
        return case, "exactly one directive for the item", [x.arg for x in nodes], "the item's directive is missing or duplicated"
    nd = nodes[0]
    ind = " " * (nd.indent + 3)
    want = [ind + t for t in docl]
    plines = text.split("\n")
    # the doc lines must appear exactly once in the page, contiguously, inside the item's directive
    ends = [k for k in range(len(plines)) if plines[k] == want[-1]]
    if len(ends) != 1:
        return case, want, [l for l in plines if "w%d" % n in l], "last doc line appears %d times" % len(ends)
    k = ends[0] - len(want) + 1
    if k < 0:
        return case, want, plines[:ends[0] + 1], "doc lines are not reproduced verbatim, in order and contiguously"
    got = plines[k:k + len(want)]
    norm = lambda ls: [l if l.strip() else "" for l in ls]
    if norm(got) != norm(want):
        return case, want, got, "doc lines are not reproduced verbatim, in order and contiguously"
    # inside the directive: after its marker line and before the next line indented less than the content
    if not (nd.lineno < k):
        return case, "inside directive at line %d" % nd.lineno, k, "doc text is outside its directive"
    between = plines[nd.lineno + 1:k]
    if any(l.strip() and (len(l) - len(l.lstrip(" "))) <= nd.indent for l in between):
        return case, "inside directive", between, "doc text is not nested in its item's directive"
    return None


def _chunk(args):
    chunk, seed, pipeline_every = args
    out = []
    for n, beh in chunk:
        rng = random.Random(seed * 7919 + n)
        tok, got, flat, body = function_level(beh, rng)
        r = {"n": n, "c01": None, "c04": None, "pipe": None}
        if beh["c01"]:
            want = body + [""]
            if got != want:
                r["c01"] = (tok, want, got)
        if got != flat:
            r["c04"] = (tok, flat, got)
        ideal = ["".join(conc_chars(x, random.Random(0)) for x in ln) for ln in beh["ideal"]] if False else None
        if pipeline_every and beh["c01"] and beh["leader"] == "hash" and n % pipeline_every == 0:
            r["pipe"] = pipeline_level(beh, n, rng)
        out.append(r)
    return out


def _init(src):
    lib.CMINX_SRC = src
    lib.use_repo_sources()


def replay(run, pid, behs, seed, pipeline_every=0):
    items = list(enumerate(behs))
    chunks = [(items[i::lib.NCPU * 2], seed, pipeline_every) for i in range(lib.NCPU * 2)]
    chunks = [c for c in chunks if c[0]]
    stats = run.notes.setdefault("replay", {"function_level": 0, "pipeline_level": 0})
    with ProcessPoolExecutor(max_workers=lib.NCPU, initializer=_init, initargs=(lib.CMINX_SRC,)) as ex:
        for part in ex.map(_chunk, chunks):
            for r in part:
                beh = behs[r["n"]]
                run.behaviours += 1
                stats["function_level"] += 1
                run.count(json.dumps([beh["ind"], beh["first"], beh["body"], beh["leader"]]))
                feats = {"first_line_text": bool(beh["first"]), "indent": len(beh["ind"]), "leader": beh["leader"]}
                if pid == "C01" and r["c01"]:
                    tok, want, got = r["c01"]
                    run.violation({"doccomment": tok, "features": feats}, want, got,
                                  "clean_doc_lines does not return the body text of a canonical doccomment")
                if pid == "C04" and r["c04"]:
                    tok, want, got = r["c04"]
                    run.violation({"doccomment": tok, "features": feats}, want, got,
                                  "the cleaned text of an indented doccomment differs from that of the same block unindented")
                if r["pipe"] is not None or (pipeline_every and r["n"] % pipeline_every == 0):
                    stats["pipeline_level"] += 1
                if pid == "C01" and r["pipe"]:
                    case, want, got, why = r["pipe"]
                    case["features"] = dict(feats, nonascii=any(ord(c) > 127 for c in case["source"]))
                    run.violation(case, want, got, why)
    if behs:
        b = behs[len(behs) // 2]
        run.sample({"indent": b["ind"], "opening_line_rest": b["first"], "body": b["body"], "leader": b["leader"]})


def big_file_case(run):
    """Modules larger than any plausible read buffer, filled with 2-, 3- and 4-byte characters, in four byte
    alignments: every doc line must arrive verbatim (C01: non-ASCII characters unchanged, whatever their byte offset)."""
    import agg
    from rstparse import Page
    for shift in range(4):
        parts = ["#" + "x" * shift + "\n"]
        want = {}
        for i in range(60):
            ch = ["🙂", "漢", "é", "𝔘", "\u2126", "\uf900"][i % 6]      # the last two are not stable under Unicode normalisation
            line = "w%d " % i + ch * (330 + i)        # about 1 KiB of multi-byte characters per line
            want["big_%d(" % i] = line
            parts.append("#[[[\n# %s\n#]]\nfunction(big_%d a)\nendfunction()\n" % (line, i))
        src = "".join(parts)
        status, text, _, _ = agg.run_real(src, agg.make_settings())
        run.count("bigfile:%d" % shift)
        case = {"source_bytes": len(src.encode("utf-8")), "byte_shift": shift, "features": {"big_file": True, "nonascii": True}}
        if status != "ok":
            run.violation(case, "page", text, "the pipeline raised on a large UTF-8 file")
            continue
        page = Page(text)
        bad = []
        for nd in page.nodes:
            for prefix, line in want.items():
                if nd.name == "function" and nd.arg.startswith(prefix) and line not in nd.text_lines:
                    bad.append([prefix, line[:12] + "...", [t[:12] + "..." for t in nd.text_lines[:1]]])
        if bad or sum(1 for nd in page.nodes if nd.name == "function") != 60:
            run.violation(case, "every doc line verbatim", bad[:3], "doc text of a large UTF-8 file is not reproduced verbatim")


def twin_cases(run):
    """Two definitions of one name (same spelling, or differing only in letter case; e.g. one per if()/else() branch),
    each with its own doccomment: both texts must reach the page, each under its own directive (C01: no doccomment
    line is dropped or attributed to another item)."""
    import agg
    from rstparse import Page
    shapes = [("function", "helper", "function", "helper"), ("macro", "Helper", "function", "HELPER"),
              ("function", "setup", "macro", "setup"), ("macro", "m_x", "macro", "M_X")]
    for n, (k1, n1, k2, n2) in enumerate(shapes):
        for wrap in (False, True):
            body = ("#[[[\n# first twin w%d\n# more of the first\n#]]\n%s(%s a)\nend%s()\n" % (n, k1, n1, k1),
                    "#[[[\n# second twin w%d\n# more of the second\n#]]\n%s(%s b c)\nend%s()\n" % (n, k2, n2, k2))
            src = ("if(WIN32)\n%selse()\n%sendif()\n" % body) if wrap else body[0] + body[1]
            status, text, _, _ = agg.run_real(src, agg.make_settings())
            run.count("twin:%d:%s" % (n, wrap))
            case = {"source": src, "features": {"same_name_twice": True}}
            if status != "ok":
                run.violation(case, "page", text, "the pipeline raised on two definitions of one name")
                continue
            nodes = [nd for nd in Page(text).nodes if nd.name == "function"]
            docs = [[t for t in nd.text_lines if t.strip()] for nd in nodes]
            want = [["first twin w%d" % n, "more of the first"], ["second twin w%d" % n, "more of the second"]]
            if docs != want:
                run.violation(case, want, docs, "a doccomment of one of two same-named definitions is dropped, duplicated or misattributed")


def fixed_cases(run):
    """Doccomment shapes outside the canonical form of DocClean.tla (closing delimiter on its own line): one-line
    doccomments, a closing delimiter at the end of the last text line, a documented command without arguments, a field
    that names a parameter as written while a strip pattern is configured.  Every text given must reach the page."""
    import agg
    cases = [
        ("#[[[#]]\nfunction(f0)\nendfunction()\n", [], "f0("),
        ("#[[[ #]]\nfunction(f1)\nendfunction()\n", [], "f1("),
        ("#[[[[]#]]\nfunction(f2)\nendfunction()\n", [], "f2("),
        ("#[[[ one-line text w1 #]]\nfunction(f3)\nendfunction()\n", ["one-line text w1"], "f3("),
        ("#[[[\n# first line w2\n# closing delimiter behind the text w2 #]]\nfunction(f4)\nendfunction()\n",
         ["first line w2", "closing delimiter behind the text w2"], "f4("),
        ("#[[[\n# a command without arguments w3\n#]]\nenable_testing()\n", ["a command without arguments w3"], "enable_testing("),
        ("#[[[\n# also without arguments w4\n#]]\ninclude_guard()\nmessage(x)\n", ["also without arguments w4"], "include_guard("),
        ("cpp_class(K)\n#[[[\n# doc of the member w5\n# :param _p_a: written with its prefix w5\n#]]\ncpp_member(m K int)\nfunction(\"${m}\" self _p_a)\nendfunction()\ncpp_end_class()\n",
         ["doc of the member w5", ":param _p_a: written with its prefix w5"], "m("),
    ]
    for src, texts, marker in cases:
        status, text, _, _ = agg.run_real(src, agg.make_settings(None, {"f": True, "m": True, "x": True}))
        run.count("fixed-doc:" + src)
        case = {"source": src, "features": {"fixed_doc_shape": True}}
        if status != "ok":
            run.violation(case, "page", status + " " + text, "the pipeline raised on a valid doccomment shape")
        elif marker not in text or any(t not in text for t in texts):
            run.violation(case, texts + [marker], text, "doc text of a valid doccomment shape does not reach the page as written")
