----------------------------- MODULE RstWriter -----------------------------
(***************************************************************************)
(* src/cminx/rstwriter.py as an API-history machine.                       *)
(*                                                                         *)
(* A document is a set of writers (the root RSTWriter, handle 0, and one   *)
(* per Directive) each holding an ordered list of elements.  Elements are  *)
(* the rows of `nodes` (index = creation order, which is also the order    *)
(* inside a writer because every API call appends).  One action per        *)
(* public method; ToText is the only reader.                               *)
(*                                                                         *)
(* Lines(h) is the serialisation as the code computes it: every element    *)
(* class has its own leading/trailing-newline convention and takes its     *)
(* indentation from the `indent` attribute of the writer it was added to   *)
(* (Directive: parent's + 1, heading printed at indent - 1).  A line is    *)
(* [sp |-> leading spaces written by the writer, t |-> what follows].      *)
(* The C20 invariants relate that arithmetic to the structural nesting     *)
(* depth.                                                                  *)
(***************************************************************************)
EXTENDS Integers, Sequences, FiniteSets, TLC, Json

CONSTANTS MaxOps, MaxDepth, MaxReads,
          TextMenu,     \* set of paragraphs: sequences of [lead |-> own leading spaces, w |-> word or ""]
          TitleMenu,    \* set of [id, len]: titles with their length in characters
          ItemMenu,     \* set of item tuples for lists
          OpKinds       \* which API methods the configuration exercises

VARIABLES nodes,    \* Seq of elements: [k, par (writer handle, -1 = detached by clear), ind (writer's indent attribute), ...]
          title,    \* title of the root writer
          hist,     \* history of API calls (history variable)
          outs,     \* serialisations returned by the ToText calls of hist (history variable)
          nread     \* number of ToText calls so far
vars == <<nodes, title, hist, outs, nread>>

Blank == [sp |-> 0, t |-> <<"blank">>]

\* ---- writers
IsDir(h) == h \in 1..Len(nodes) /\ nodes[h].k = "dir"
Writers == {0} \cup {h \in 1..Len(nodes) : nodes[h].k \in {"dir", "sect"}}
\* Directive.__init__: indent = parent's indent + 1; section(): a fresh RSTWriter, indent 0 whatever the parent's
Indent(h) == IF h = 0 THEN 0 ELSE IF nodes[h].k = "sect" THEN 0 ELSE nodes[h].ind + 1
Level(h) == IF h = 0 THEN 0 ELSE IF nodes[h].k = "sect" THEN nodes[h].level ELSE 0
Children(h) == {n \in 1..Len(nodes) : nodes[n].par = h}
\* structural depth: number of directive ancestors (detached writers count from themselves)
Depth(h) == LET D[x \in Writers] == IF x = 0 THEN 0 ELSE IF nodes[x].par = -1 THEN 1 ELSE (IF nodes[x].k = "dir" THEN 1 ELSE 0) + D[nodes[x].par] IN D[h]
\* is writer h still part of the root document?
Attached(h) == LET A[x \in Writers] == IF x = 0 THEN TRUE ELSE IF nodes[x].par = -1 THEN FALSE ELSE A[nodes[x].par] IN A[h]
\* a section() inside a directive restarts at indent 0: what lies below a section is outside C20's statement
BelowSection(h) == LET B[x \in Writers] == IF x = 0 THEN FALSE ELSE IF nodes[x].k = "sect" THEN TRUE ELSE IF nodes[x].par = -1 THEN FALSE ELSE B[nodes[x].par] IN B[h]

SeqOfSet(S) ==  \* ascending order; S is always a set of node indices
  SelectSeq([j \in 1..Len(nodes) |-> j], LAMBDA x : x \in S)
Flatten(ss) == LET F[j \in 0..Len(ss)] == IF j = 0 THEN <<>> ELSE F[j-1] \o ss[j] IN F[Len(ss)]

\* ---- serialisation, element by element, as the code does it
\* Paragraph: prefix + line for every line of the text
ParaLines(n) == [j \in 1..Len(nodes[n].txt) |-> [sp |-> 3 * nodes[n].ind, t |-> <<"para", n, j, nodes[n].txt[j].lead, nodes[n].txt[j].w>>]]
\* Field: "\n{indent}:{name}: {text}"
FieldLines(n) == <<Blank, [sp |-> 3 * nodes[n].ind, t |-> <<"field", n>>]>>
\* RSTList: "\n" then "{indent}* item\n" per item; the enclosing to_text adds one more "\n"
ListLines(n) == <<Blank>> \o [j \in 1..Len(nodes[n].items) |-> [sp |-> 3 * nodes[n].ind, t |-> <<nodes[n].k, n, j, nodes[n].items[j]>>]] \o <<Blank>>
\* Directive.to_text: heading ("\n{indent-1}.. name:: args"), options, blank line iff content, content.
\* Lines of element n as it appears inside its parent: str(element) + "\n"
\* DocTest: "\n{indent}>>> {test_line}\n{expected_output}\n" - the expected output is not indented
DoctestLines(n) == <<Blank, [sp |-> 3 * nodes[n].ind, t |-> <<"doctest", n>>], [sp |-> 0, t |-> <<"expected", n>>], Blank>>
RECURSIVE ElemLines(_)
DirLines(n) ==
  LET kids == SeqOfSet(Children(n))
      head == <<Blank, [sp |-> 3 * ((nodes[n].ind + 1) - 1), t |-> <<"dirhead", n>>]>>
      opts == [j \in 1..Len(nodes[n].opts) |-> [sp |-> 3 * (nodes[n].ind + 1), t |-> <<"option", n, j>>]]
      sep == IF Len(kids) > 0 THEN <<Blank>> ELSE <<>>
  IN head \o opts \o sep \o Flatten([j \in 1..Len(kids) |-> ElemLines(kids[j])])
ElemLines(n) ==
  CASE nodes[n].k = "para" -> ParaLines(n)
    [] nodes[n].k = "field" -> FieldLines(n)
    [] nodes[n].k \in {"blist", "elist"} -> ListLines(n)
    [] nodes[n].k = "dir" -> DirLines(n) \o <<Blank>>     \* to_text ends with "\n", the parent adds another
    [] nodes[n].k = "doctest" -> DoctestLines(n)
    [] nodes[n].k = "sect" ->    \* a nested RSTWriter: its own heading in the character of its level, then its elements
         LET kids == SeqOfSet(Children(n)) IN
         <<Blank, [sp |-> 0, t |-> <<"sover", n, nodes[n].level, nodes[n].title.len>>], [sp |-> 0, t |-> <<"stitle", n, nodes[n].title.id>>],
           [sp |-> 0, t |-> <<"sover", n, nodes[n].level, nodes[n].title.len>>]>>
         \o Flatten([j \in 1..Len(kids) |-> ElemLines(kids[j])]) \o <<Blank>>
HeadingLines == <<Blank, [sp |-> 0, t |-> <<"over", title.len>>], [sp |-> 0, t |-> <<"title", title.id>>],
                  [sp |-> 0, t |-> <<"over", title.len>>]>>
\* RSTWriter.to_text of writer h; the final "\n" of the string is represented by the line list ending
Lines(h) ==
  IF h = 0 THEN LET kids == SeqOfSet(Children(0)) IN HeadingLines \o Flatten([j \in 1..Len(kids) |-> ElemLines(kids[j])])
  ELSE IF nodes[h].k = "sect" THEN SubSeq(ElemLines(h), 1, Len(ElemLines(h)) - 1)
  ELSE DirLines(h)

\* ---- API actions
Op(o) == hist' = Append(hist, o)
CanAdd == Len(hist) - nread <= MaxOps
NewNode(nd) == nodes' = Append(nodes, nd)

Text(h, txt) == /\ CanAdd /\ "text" \in OpKinds
                /\ NewNode([k |-> "para", par |-> h, ind |-> Indent(h), txt |-> txt])
                /\ Op([op |-> "text", h |-> h, txt |-> txt]) /\ UNCHANGED <<title, outs, nread>>
Field(h) == /\ CanAdd /\ "field" \in OpKinds
            /\ NewNode([k |-> "field", par |-> h, ind |-> Indent(h)])
            /\ Op([op |-> "field", h |-> h]) /\ UNCHANGED <<title, outs, nread>>
List(h, kind, items) == /\ CanAdd /\ kind \in OpKinds
                        /\ NewNode([k |-> kind, par |-> h, ind |-> Indent(h), items |-> items])
                        /\ Op([op |-> kind, h |-> h, items |-> items]) /\ UNCHANGED <<title, outs, nread>>
Doctest(h) == /\ CanAdd /\ "doctest" \in OpKinds
              /\ NewNode([k |-> "doctest", par |-> h, ind |-> Indent(h)])
              /\ Op([op |-> "doctest", h |-> h]) /\ UNCHANGED <<title, outs, nread>>
Section(h, t) == /\ CanAdd /\ "section" \in OpKinds /\ Level(h) < 2
                 /\ NewNode([k |-> "sect", par |-> h, ind |-> Indent(h), level |-> Level(h) + 1, title |-> t])
                 /\ Op([op |-> "section", h |-> h, t |-> t]) /\ UNCHANGED <<title, outs, nread>>
NewDirective(h) == /\ CanAdd /\ "directive" \in OpKinds /\ Depth(h) < MaxDepth
                   /\ NewNode([k |-> "dir", par |-> h, ind |-> Indent(h), opts |-> <<>>])
                   /\ Op([op |-> "directive", h |-> h]) /\ UNCHANGED <<title, outs, nread>>
Option(h) == /\ CanAdd /\ "option" \in OpKinds /\ IsDir(h) /\ Len(nodes[h].opts) < 2
             /\ nodes' = [nodes EXCEPT ![h].opts = Append(@, Len(@) + 1)]
             /\ Op([op |-> "option", h |-> h]) /\ UNCHANGED <<title, outs, nread>>
SetTitle(t) == /\ CanAdd /\ "set_title" \in OpKinds /\ t # title
               /\ title' = t /\ Op([op |-> "set_title", t |-> t]) /\ UNCHANGED <<nodes, outs, nread>>
\* clear(): del self.document[1:] - the elements are detached (handles to them stay usable), the heading
\* and, for a directive, the options stay
Clear(h) == /\ CanAdd /\ "clear" \in OpKinds /\ Children(h) # {}
            /\ nodes' = [n \in 1..Len(nodes) |-> IF nodes[n].par = h THEN [nodes[n] EXCEPT !.par = -1] ELSE nodes[n]]
            /\ Op([op |-> "clear", h |-> h]) /\ UNCHANGED <<title, outs, nread>>
\* to_text(): reads, must not change the document
ToText(h) == /\ nread < MaxReads /\ "to_text" \in OpKinds
             /\ outs' = Append(outs, Lines(h)) /\ nread' = nread + 1
             /\ Op([op |-> "to_text", h |-> h]) /\ UNCHANGED <<nodes, title>>

Init == /\ nodes = <<>> /\ outs = <<>> /\ nread = 0
        /\ \E t \in TitleMenu : title = t /\ hist = <<[op |-> "new", t |-> t]>>
AddText == \E h \in Writers, txt \in TextMenu : Text(h, txt)
AddField == \E h \in Writers : Field(h)
AddList == \E h \in Writers, kind \in {"blist", "elist"}, items \in ItemMenu : List(h, kind, items)
AddDirective == \E h \in Writers : NewDirective(h)
AddDoctest == \E h \in Writers : Doctest(h)
AddSection == \E h \in Writers, t \in TitleMenu : Section(h, t)
AddOption == \E h \in Writers : Option(h)
ChangeTitle == \E t \in TitleMenu : SetTitle(t)
ClearWriter == \E h \in Writers : Clear(h)
Serialise == \E h \in Writers : ToText(h)
Next == AddText \/ AddField \/ AddList \/ AddDirective \/ AddDoctest \/ AddSection \/ AddOption \/ ChangeTitle \/ ClearWriter \/ Serialise
Spec == Init /\ [][Next]_vars

\* ---- C20
\* serialisation does not change the document
ToTextIsPure == [][nread' # nread => nodes' = nodes /\ title' = title]_vars
\* the title is framed by an over- and underline of the title's length, also after a title change
HeadingFramed == LET L == Lines(0) IN L[1] = Blank /\ L[2].t = <<"over", title.len>> /\ L[3].t = <<"title", title.id>> /\ L[4] = L[2]
\* every line of every element of writer h starts with exactly 3 * Depth(h) spaces (beyond its own text);
\* a directive heading is an element of its parent
AttachedWriters == {h \in Writers : Attached(h)}
IndentExact ==
  \A n \in 1..Len(nodes) : (nodes[n].par # -1 /\ Attached(nodes[n].par) /\ ~BelowSection(nodes[n].par) /\ nodes[n].k \notin {"sect", "doctest"}) =>
     LET d == Depth(nodes[n].par) IN
     /\ nodes[n].k = "dir" => DirLines(n)[2].sp = 3 * d /\ \A j \in 1..Len(nodes[n].opts) : DirLines(n)[2 + j].sp = 3 * (d + 1)
     /\ nodes[n].k # "dir" => \A j \in 1..Len(ElemLines(n)) : ElemLines(n)[j] = Blank \/ ElemLines(n)[j].sp = 3 * d
\* options directly after the directive heading and before any content
OptionsFirst ==
  \A n \in 1..Len(nodes) : nodes[n].k = "dir" =>
     LET L == DirLines(n) IN \A j \in 1..Len(nodes[n].opts) : L[2 + j].t = <<"option", n, j>>
\* elements appear in the order they were added: the element tokens of a writer's lines are ascending in creation order
TokNode(l) == IF l.t[1] \in {"blank", "over", "title"} THEN 0 ELSE l.t[2]
OrderPreserved ==
  \A h \in Writers :
     LET kids == SeqOfSet(Children(h))
         L == Lines(h)
         firsts == [j \in 1..Len(kids) |-> CHOOSE p \in 1..Len(L) : TokNode(L[p]) = kids[j] /\ \A p2 \in 1..(p-1) : TokNode(L[p2]) # kids[j]]
     IN \A j \in 1..(Len(kids) - 1) : firsts[j] < firsts[j + 1]
\* after clear() only the heading (and a directive's options) remain
LastOp == hist[Len(hist)]
ClearKeepsHeading ==
  LastOp.op = "clear" =>
     Lines(LastOp.h) = IF LastOp.h = 0 THEN HeadingLines
                       ELSE <<Blank, [sp |-> 3 * nodes[LastOp.h].ind, t |-> <<"dirhead", LastOp.h>>]>>
                            \o [j \in 1..Len(nodes[LastOp.h].opts) |-> [sp |-> 3 * (nodes[LastOp.h].ind + 1), t |-> <<"option", LastOp.h, j>>]]
\* the writer's indent attribute is the structural depth (what makes IndentExact true)
IndentIsDepth == \A h \in AttachedWriters : ~BelowSection(h) => Indent(h) = Depth(h)

\* ---- behaviours for replay: every history that ends with a to_text call
Emit == LastOp.op = "to_text" => PrintT(<<"BEH", ToJson([hist |-> hist, outs |-> outs])>>)
\* title changes are part of the view: a re-framed heading must be observed in context
NTitle == Len(SelectSeq(hist, LAMBDA o : o.op = "set_title"))
\* (whether the last operation was a serialisation is part of the view as well: Emit depends on it, and what TLC
\* evaluates on a state must not depend on which history reached that state first)
View == <<nodes, title, nread, NTitle, LastOp.op = "to_text">>
=============================================================================
