------------------------------- MODULE Naming -------------------------------
(***************************************************************************)
(* C12: how a page gets its title and module name.                         *)
(*   main()/document()      : default prefix from the input path           *)
(*   document_single_file() : header/module name from prefix, separator    *)
(*                            and relative path; extension stripping       *)
(*   Documenter.process_docs: module entry first; '@module <name>'         *)
(*                            overrides title and module name              *)
(* Three actions in the order the code runs them.  Names are sequences of  *)
(* string tokens (the harness concatenates them).                          *)
(***************************************************************************)
EXTENDS Integers, Sequences, FiniteSets, TLC, Json

CONSTANTS Dev,
          Files,      \* set of [rel: path components below the input directory, stem, ext (".cmake"/".CMAKE")]
          Seps, PrefixSrcs, Spellings, Modes, ModDocs, HeaderLists,
          Befores     \* what was given earlier on the same command line: "none" | "dir" | "file"

None == "<none>"
VARIABLES run,     \* the run descriptor chosen in Init
          pc,      \* "main" -> "names" -> "docs" -> "done"
          prefix,  \* prefix in effect (None = no prefix)
          title, modname,   \* token sequences computed by document_single_file
          page     \* [title, module, modtext, firstdoc]: what the page shows
vars == <<run, pc, prefix, title, modname, page>>

Join(path) == LET F[j \in 0..Len(path)] == IF j = 0 THEN <<>> ELSE IF j = 1 THEN <<path[1]>> ELSE F[j-1] \o <<"/", path[j]>> IN F[Len(path)]

Init ==
  /\ \E f \in Files, sep \in Seps, ps \in PrefixSrcs, sp \in Spellings, mode \in Modes, md \in ModDocs,
        et \in BOOLEAN, em \in BOOLEAN, h \in HeaderLists, nextdoc \in BOOLEAN, bf \in Befores :
        /\ (mode = "single" => sp = "name")       \* a lone file is spelled by its path
        /\ run = [file |-> f, sep |-> sep, prefixsrc |-> ps, spelling |-> sp, mode |-> mode, moddoc |-> md,
                  ext_titles |-> et, ext_modules |-> em, headers |-> h, nextdoc |-> nextdoc, before |-> bf]
  /\ pc = "main" /\ prefix = None /\ title = <<>> /\ modname = <<>> /\ page = [title |-> <<>>]

\* document(): prefix = configured prefix, else (directory input) the last element of the input path
\* as it was spelled on the command line (D_PrefixFromSpelling), ideally the directory's name.
\* main() hands every input of the command line its own copy of the settings: what an earlier input did to its
\* copy (the default prefix of a directory) is not seen by a later one (D_SettingsSharedAcrossInputs: it is)
Main ==
  /\ pc = "main"
  /\ prefix' = IF run.prefixsrc # "absent" THEN "PFX"
               ELSE IF "D_SettingsSharedAcrossInputs" \in Dev /\ run.before = "dir" THEN "OTHERDIR"
               ELSE IF run.mode = "single" THEN None
               ELSE IF "D_PrefixFromSpelling" \in Dev /\ run.spelling \in {"dot"} THEN "."
               ELSE "DIRNAME"
  /\ pc' = "names" /\ UNCHANGED <<run, title, modname, page>>

\* document_single_file()
HeaderOf(f, keepExt) ==
  LET base == IF run.mode = "single"
              THEN IF "D_SingleFileTitleIsAbsPath" \in Dev THEN <<"ABSDIR/">> \o Join(f.rel) ELSE <<f.rel[Len(f.rel)]>>
              ELSE Join(f.rel)
      \* re.sub(r"\.cmake$", "", name): only the lower-case extension is recognised
      stripped == IF ~keepExt /\ f.ext = ".cmake" THEN SubSeq(base, 1, Len(base) - 1) \o <<f.stem>> ELSE base
  IN (IF prefix # None THEN <<prefix, run.sep>> ELSE <<>>) \o stripped
Names ==
  /\ pc = "names"
  /\ title' = HeaderOf(run.file, run.ext_titles) /\ modname' = HeaderOf(run.file, run.ext_modules)
  /\ pc' = "docs" /\ UNCHANGED <<run, prefix, page>>

\* Documenter.process_docs(): one module entry first; a named @module doccomment overrides both names
ProcessDocs ==
  /\ pc = "docs"
  /\ page' = [title |-> IF run.moddoc.kind = "named" THEN <<"MODNAME">> ELSE title,
              module |-> IF run.moddoc.kind = "named" THEN <<"MODNAME">> ELSE modname,
              modtext |-> IF run.moddoc.kind # "absent" /\ run.moddoc.body THEN "MODBODY" ELSE "",
              \* the module doccomment is a token of its own: never the doccomment of the next command
              firstdoc |-> IF run.nextdoc THEN "CMDDOC" ELSE ""]
  /\ pc' = "done" /\ UNCHANGED <<run, prefix, title, modname>>

Next == Main \/ Names \/ ProcessDocs
Spec == Init /\ [][Next]_vars

\* ---------------------------------------------------------------- Req (from the statement)
IdealPrefix == IF run.prefixsrc # "absent" THEN "PFX" ELSE IF run.mode = "single" THEN None ELSE "DIRNAME"
IdealName(keepExt) ==
  LET f == run.file
      base == IF run.mode = "single" THEN <<f.rel[Len(f.rel)]>> ELSE Join(f.rel)
      shown == IF ~keepExt /\ f.ext = ".cmake" THEN SubSeq(base, 1, Len(base) - 1) \o <<f.stem>> ELSE base
  IN (IF IdealPrefix # None THEN <<IdealPrefix, run.sep>> ELSE <<>>) \o shown
Ideal == [title |-> IF run.moddoc.kind = "named" THEN <<"MODNAME">> ELSE IdealName(run.ext_titles),
          module |-> IF run.moddoc.kind = "named" THEN <<"MODNAME">> ELSE IdealName(run.ext_modules),
          modtext |-> IF run.moddoc.kind # "absent" /\ run.moddoc.body THEN "MODBODY" ELSE "",
          firstdoc |-> IF run.nextdoc THEN "CMDDOC" ELSE ""]

Done == pc = "done"
C12_Names == Done => page = Ideal
C12_StartsWithPrefixSep ==
  Done /\ run.moddoc.kind # "named" /\ IdealPrefix # None =>
     Len(page.title) >= 2 /\ page.title[1] = IdealPrefix /\ page.title[2] = run.sep
C12_ExtDropped ==
  Done /\ run.moddoc.kind # "named" /\ run.file.ext = ".cmake" =>
     (page.title[Len(page.title)] = run.file.stem) = ~run.ext_titles
\* different files of one run get different titles (relative paths are injective)
C12_Injective ==
  pc = "docs" /\ run.mode = "dir" =>
     \A g \in Files : g # run.file => /\ HeaderOf(g, run.ext_titles) # title
                                       /\ HeaderOf(g, run.ext_modules) # modname
Emit == Done => PrintT(<<"BEH", ToJson([run |-> run, ideal |-> Ideal, impl |-> page])>>)
=============================================================================
