------------------------------ MODULE MC_GenRst ------------------------------
EXTENDS GenRst
NoDev == {}
Stamp == {"D_StampSkipsRun"}
NoBlind == {}
BlindUpperSettings == {"upper", "settings"}
=============================================================================
