-------------------------------- MODULE CMinx --------------------------------
(***************************************************************************)
(* The pipeline as one machine: for every input file, in order,            *)
(*   lex -> parse -> (any syntax error? raise) -> walk -> render -> write  *)
(* with failure propagation through document_single_file(), document()     *)
(* and main().  What a file contains is abstracted to its fault kind:       *)
(*   "ok"        valid                                                     *)
(*   "lexfault"  a lexical fault (stray quote, invalid escape, unterminated *)
(*               bracket comment): the lexer reports it and SKIPS input     *)
(*   "parsefault" a syntactic fault (unbalanced parentheses, stray text):   *)
(*               the parser reports it, ParserErrorListener raises, and the *)
(*               enclosing rule may swallow the exception and recover       *)
(* C06 is stated on the outcome: a faulty file never gets a page and the    *)
(* run ends with a non-zero status.  Beyond C06 the model says which pages  *)
(* of a run exist when it fails: main() stops at the first failing file.    *)
(***************************************************************************)
EXTENDS Integers, Sequences, FiniteSets, TLC, Json

CONSTANTS Dev,        \* "D_LexErrorsNotRaised", "D_NestedMismatchSwallowed": the behaviour before the repair of F2
          MaxFiles, Modes

VARIABLES mode,     \* "inputs": the files are separate command-line inputs; "directory": one directory input
          files,    \* fault kind of each file, in processing order (sorted names)
          i,        \* file being processed
          pc,       \* stage of file i
          errs,     \* syntax errors collected for file i (SyntaxErrorCollector)
          skipped,  \* did lexer/parser skip input of file i
          written,  \* indices of the files whose page was written
          index,    \* directory mode: index.rst written
          status    \* "run" | "exit0" | "failed"
vars == <<mode, files, i, pc, errs, skipped, written, index, status>>

Kinds == {"ok", "lexfault", "parsefault", "parsefault_swallowed"}
Init == /\ mode \in Modes
        /\ \E n \in 1..MaxFiles : files \in [1..n -> Kinds]
        /\ i = 1 /\ pc = "start" /\ errs = 0 /\ skipped = FALSE /\ written = {} /\ index = FALSE /\ status = "run"

Running == status = "run" /\ i <= Len(files)
\* document(): a directory gets its index.rst (toctree from the file names) before any file is parsed
Start == /\ Running /\ pc = "start"
         /\ index' = (mode = "directory" /\ (i = 1 \/ index))
         /\ pc' = "lex" /\ errs' = 0 /\ skipped' = FALSE
         /\ UNCHANGED <<mode, files, i, written, status>>
\* the lexer prints 'token recognition error' and drops the offending characters; the collector counts it
Lex == /\ Running /\ pc = "lex"
       /\ IF files[i] = "lexfault"
          THEN skipped' = TRUE /\ errs' = IF "D_LexErrorsNotRaised" \in Dev THEN errs ELSE errs + 1
          ELSE UNCHANGED <<skipped, errs>>
       /\ pc' = "parse" /\ UNCHANGED <<mode, files, i, written, index, status>>
\* the parser reports the error to the collector first, then ParserErrorListener raises; the exception reaches
\* the caller unless the enclosing rule is already recovering and swallows it
Parse == /\ Running /\ pc = "parse"
         /\ CASE files[i] = "parsefault" -> /\ status' = "failed" /\ UNCHANGED <<errs, skipped, pc>>
              [] files[i] = "parsefault_swallowed" ->
                   /\ skipped' = TRUE
                   /\ errs' = IF "D_NestedMismatchSwallowed" \in Dev THEN errs ELSE errs + 1
                   /\ pc' = "check" /\ UNCHANGED status
              [] OTHER -> pc' = "check" /\ UNCHANGED <<errs, skipped, status>>
         /\ UNCHANGED <<mode, files, i, written, index>>
\* Documenter.process(): any collected syntax error -> CMakeSyntaxError before the tree is walked
Check == /\ Running /\ pc = "check"
         /\ IF errs > 0 THEN status' = "failed" /\ UNCHANGED pc ELSE pc' = "write" /\ UNCHANGED status
         /\ UNCHANGED <<mode, files, i, errs, skipped, written, index>>
\* walk, render, write the page (document_single_file writes only after processing finished)
Write == /\ Running /\ pc = "write"
         /\ written' = written \cup {i} /\ i' = i + 1 /\ pc' = "start"
         /\ UNCHANGED <<mode, files, errs, skipped, index, status>>
Finish == /\ status = "run" /\ i > Len(files) /\ status' = "exit0"
          /\ UNCHANGED <<mode, files, i, pc, errs, skipped, written, index>>
Next == Start \/ Lex \/ Parse \/ Check \/ Write \/ Finish
Spec == Init /\ [][Next]_vars

Done == status \in {"exit0", "failed"}
Faulty(j) == files[j] # "ok"
\* C06: a faulty file never gets a page, and a run over any faulty file ends with a non-zero status
C06_NoPageForFaulty == \A j \in written : ~Faulty(j)
C06_FailsLoudly == Done /\ (\E j \in 1..Len(files) : Faulty(j)) => status = "failed"
\* C06, second sentence: no page is computed from a view of the file in which input was skipped
C06_NoPartialView == pc = "write" => ~skipped
\* beyond C06: a failing run stops at the first faulty file; the pages before it exist, the later ones do not
FirstFaulty == IF \E j \in 1..Len(files) : Faulty(j) THEN CHOOSE j \in 1..Len(files) : Faulty(j) /\ \A k \in 1..(j-1) : ~Faulty(k) ELSE Len(files) + 1
StopsAtFirstFault == Done => written = 1..(FirstFaulty - 1)
Emit == Done => PrintT(<<"BEH", ToJson([mode |-> mode, files |-> files, status |-> status, written |-> written, index |-> index])>>)
=============================================================================
