"""C07: EntryRender.tla pages replayed through the real pipeline; line structure vs. the model, block structure vs. docutils."""
import json
import random
from concurrent.futures import ProcessPoolExecutor

import lib

ADM = {"macro": "This is a macro, and so does not introduce a new scope.",
       "generic": "This is a generic command invocation. It is not a function or macro definition.",
       "test": "This is a CMakeTest test definition, do not call this manually.",
       "section": "This is a CMakeTest section definition, do not call this manually.",
       "ctest": 'This is a CTest test definition, do not call this manually. Use the "ctest" program to execute this test.',
       "member-macro": "This member is a macro and so does not introduce a new scope"}
OPTION_NOTE = {"option-note-1": "This variable is a user-editable option,",
               "option-note-2": "meaning it appears within the cache and can be",
               "option-note-3": "edited on the command line by the :code:`-D` flag."}


def nm(name, j):
    return name.replace("@", "n%d" % j)


def uniq(w, j):
    """doc words end in ' w': make them unique per entry"""
    return w[:-2] + " w%d" % j if isinstance(w, str) and w.endswith(" w") else w


def doc_block(doc, ind="", j=0):
    """doccomment for the cleaned doc lines `doc` (the last, empty line comes from the closing delimiter)"""
    body = doc[:-1]
    out = [ind + "#[[["]
    for l in body:
        t = " " * l["lead"] + uniq(l["w"], j)
        out.append(ind + ("# " + t if t else "#"))
    out.append(ind + "#]]")
    return out


def documented(doc):
    return not (len(doc) == 1 and doc[0]["w"] == "")


def split_module(page):
    """(module entry or None, the other entries): entry numbering (names n<j>, unique doc words) starts after it"""
    if page and page[0]["k"] == "module":
        return page[0], page[1:]
    return None, page


IMPL_DOCS = {}     # member name -> (doc, entry index) of the page entry that stems from the implementing function's doccomment


def member_lines(m, cname, j, cmd="cpp_member"):
    idoc = IMPL_DOCS.get(m["name"])
    return (doc_block(m["doc"], "  ", j) if documented(m["doc"]) else []) + \
        ["  %s(%s)" % (cmd, " ".join([m["name"], cname] + list(m["ptypes"])))] + \
        (doc_block(idoc[0], "  ", idoc[1]) if idoc else []) + \
        ["  %s(\"${%s}\" %s)" % ("macro" if m["ismacro"] else "function", m["name"], " ".join(["self"] + list(m["params"]))),
         "  end%s()" % ("macro" if m["ismacro"] else "function")]


def source_of(page):
    out = []
    pending_close = []     # (entries still to nest, closing lines)
    mod, page = split_module(page)
    if mod is not None:
        out += ["#[[[ @module"] + doc_block(mod["doc"], "", 0)[1:]
    IMPL_DOCS.clear()
    for j, e in enumerate(page, 1):
        if e.get("impl"):
            IMPL_DOCS[e["impl"]] = (e["doc"], j)
    for j, e in enumerate(page, 1):
        name = nm(e["name"], j)
        d = doc_block(e["doc"], "", j) if documented(e["doc"]) else []
        k = e["k"]
        if e.get("impl"):
            continue          # written as the doccomment of the member's implementing function, inside the class
        if k == "function":
            out += d + ["function(%s %s)" % (name, " ".join(e["args"])), "endfunction()"]
        elif k == "macro":
            out += d + ["macro(%s %s)" % (name, " ".join(e["args"])), "endmacro()"]
        elif k == "variable":
            if e["vtype"] == "list":
                # a list written over several lines, continuation lines in column 0: the page is the same as for one line
                out += d + ["set(%s" % name] + e["value"].split(" ") + [")"]
            else:
                out += d + ["set(%s %s)" % (name, '"%s"' % e["value"])]
        elif k == "option":
            out += d + ["option(%s %s %s)" % (name, e["help"], e["value"])]
        elif k == "generic":
            out += d + ["message(%s)" % " ".join(e["args"])]
        elif k == "ctest":
            out += d + ["add_test(NAME %s %s)" % (name, " ".join(e["args"]))]
        elif k in ("test", "section"):
            cmd = "ct_add_test" if k == "test" else "ct_add_section"
            impl = "macro" if e.get("value") == "macro" else "function"      # the body of a test may be a macro
            out += d + ["%s(NAME %s%s)" % (cmd, name, " EXPECTFAIL" if e["args"] else ""), "%s(${%s})" % (impl, name), "end%s()" % impl]
        elif k == "class":
            out += d + ["cpp_class(%s)" % " ".join([name] + list(e["bases"]))]
            for m in e["ctors"]:
                out += (doc_block(m["doc"], "  ", j) if documented(m["doc"]) else []) + \
                    ["  cpp_constructor(%s)" % " ".join([m["name"], name] + list(m["ptypes"])),
                     "  %s(\"${%s}\" %s)" % ("macro" if m["ismacro"] else "function", m["name"], " ".join(["self"] + list(m["params"]))),
                     "  end%s()" % ("macro" if m["ismacro"] else "function")]
            nlate = e.get("nlate", 0) if e["inner"] else 0
            early = e["members"][:len(e["members"]) - nlate]
            late = []
            for m in e["members"][len(e["members"]) - nlate:]:
                late += member_lines(m, name, j)
            for m in early:
                out += member_lines(m, name, j)
            for a in e["attrs"]:
                out += (doc_block(a["doc"], "  ", j) if documented(a["doc"]) else []) + \
                    ["  cpp_attr(%s)" % " ".join([name, a["name"]] + ([a["default"]] if a["hasdef"] else []))]
            if e["inner"]:
                pending_close.append([len(e["inner"]) + 1, late + ["cpp_end_class()"]])   # the next entries are its inner classes
            else:
                out += ["cpp_end_class()"]
        for pc in pending_close:
            pc[0] -= 1
        while pending_close and pending_close[-1][0] == 0:
            out += pending_close.pop()[1]
    if not out:
        out = ["include_guard()", "message(nothing to document)"]
    return "\n".join(out) + "\n"


def head_text(tag, j):
    name, arg = tag[0], tag[1]
    if name == "function":
        return "%s(%s)" % (nm(arg[0], j), " ".join(arg[1]))
    if name in ("note", "warning"):
        return ADM.get(arg[0], "") if arg else ""
    if name == "py:method":
        return "%s(%s%s)" % (arg[0], ", ".join(arg[1]), "[, ...]" if arg[2] else "")
    return nm(arg[0], j)


def render_model(beh):
    """the page text the specification predicts, from nodes + lines"""
    nodes = beh["nodes"]
    # which top-level entry does a node belong to (for the unique names)
    owner = {}
    top = 0
    for n, nd in enumerate(nodes, 1):
        if nd["k"] == "dir" and nd["par"] == 0:
            top += 1
        owner[n] = top - 1      # 0 = the module entry
    out = []
    for l in beh["lines"]:
        t = l["t"]
        sp = " " * l["sp"]
        k = t[0]
        if k == "blank":
            out.append("")
        elif k == "over":
            out.append("#" * 5)
        elif k == "title":
            out.append("TITLE")
        elif k == "dirhead":
            nd = nodes[t[1] - 1]
            out.append(sp + ".. %s:: %s" % (nd["tag"][0], head_text(nd["tag"], owner[t[1]])))
        elif k == "option":
            nd = nodes[t[1] - 1]
            o = nd["opts"][t[2] - 1]
            out.append(sp + ":%s: %s" % (o[0], o[1]))
        elif k == "field":
            nd = nodes[t[1] - 1]
            fname = " ".join(nd["tag"][0])
            out.append(sp + ":%s: %s" % (fname, nd["tag"][1]))
        elif k == "para":
            w = t[4]
            if isinstance(w, list):
                w = "Bases: " + ", ".join(":class:`%s`" % b for b in w[1])
            w = uniq(OPTION_NOTE.get(w, w), owner[t[1]])
            out.append(sp + " " * t[3] + w)
        elif k == "blist":
            out.append(sp + "* :class:`%s`" % t[3])
        else:
            raise ValueError(t)
    return "\n".join(out) + "\n"


# ---------------------------------------------------------------- docutils with stub directives
_registered = False


def setup_docutils():
    global _registered
    if _registered:
        return
    from docutils import nodes
    from docutils.parsers.rst import Directive, directives, roles

    class Stub(Directive):
        has_content = True
        optional_arguments = 1
        final_argument_whitespace = True
        option_spec = {"value": directives.unchanged, "maxdepth": directives.unchanged}

        def run(self):
            c = nodes.container()
            c["dirname"] = self.name
            c["dirarg"] = self.arguments[0] if self.arguments else ""
            c["diropts"] = dict(self.options)
            self.state.nested_parse(self.content, self.content_offset, c)
            return [c]
    for n in ("module", "function", "data", "py:class", "py:method", "py:attribute", "toctree"):
        directives.register_directive(n, Stub)

    def role(name, rawtext, text, lineno, inliner, options=None, content=None):
        return [nodes.literal(rawtext, text)], []
    roles.register_local_role("class", role)
    _registered = True


def docutils_view(text):
    """(top-level structure, error-level messages) of a page"""
    import io
    from docutils.core import publish_doctree
    from docutils import nodes
    setup_docutils()
    err = io.StringIO()
    doc = publish_doctree(text, settings_overrides={"report_level": 5, "halt_level": 5, "warning_stream": err, "file_insertion_enabled": False})
    msgs = [(m["level"], m.astext()[:120]) for m in doc.traverse(nodes.system_message) if m["level"] >= 3]

    def view(c):
        kids = []
        for ch in c.children:
            if isinstance(ch, nodes.container) and ch.get("dirname"):
                kids.append(view(ch))
        return {"dir": c["dirname"], "arg": c["dirarg"], "opts": c["diropts"], "text": c.astext(), "kids": kids}
    top = []
    for ch in doc.children:
        if isinstance(ch, nodes.title):
            top.append(("title", ch.astext()))
        elif isinstance(ch, nodes.container) and ch.get("dirname"):
            top.append(("entry", view(ch)))
        elif isinstance(ch, nodes.system_message):
            continue
        else:
            top.append(("stray", ch.__class__.__name__ + ": " + ch.astext()[:60]))
    return top, msgs


def expected_structure(page):
    mod, page = split_module(page)
    out = [("module", "t", [uniq(l["w"], 0) for l in (mod["doc"] if mod else []) if l["w"] and not l["w"].startswith(("..", ":", "*")) and not l["w"].endswith("::")])]
    for j, e in enumerate(page, 1):
        k = e["k"]
        name = nm(e["name"], j)
        dirname = {"function": "function", "macro": "function", "variable": "data", "option": "data", "generic": "function",
                   "ctest": "function", "test": "function", "section": "function", "class": "py:class"}[k]
        words = [uniq(l["w"], j) for l in e["doc"] if l["w"] and not l["w"].startswith(("..", ":", "*")) and not l["w"].endswith("::")]
        kids = []
        kidwords = []
        wordsof = lambda doc: [uniq(l["w"], j) for l in doc if l["w"] and not l["w"].startswith(("..", ":", "*")) and not l["w"].endswith("::")]
        if k == "class":
            for m in e["ctors"] + e["members"]:
                kids.append(("py:method", m["name"]))
                kidwords.append(wordsof(m["doc"]) + (list(m["params"][:1]) if m["ptypes"] and m["params"] else []))
            for a in e["attrs"]:
                kids.append(("py:attribute", a["name"]))
                kidwords.append(wordsof(a["doc"]))
        out.append((dirname, name, words, kids, kidwords))
    return out


def one(beh, n):
    import agg
    page = beh["page"]
    src = source_of(page)
    status, text, _, err = agg.run_real(src, agg.make_settings(), title="TITLE", module="MODNAME")
    case = {"source": src, "features": {"kinds": [e["k"] for e in page]}}
    page_all = page
    if status != "ok":
        return case, "page", status + " " + text, "the pipeline raised", None
    want = render_model(beh)
    drift = None
    if text != want:
        drift = {"model_page": want, "real_page": text}
    top, msgs = docutils_view(text)
    if msgs:
        return case, "no error-level message", msgs, "docutils reports errors for the generated page", drift
    kinds = [t[0] for t in top]
    if kinds[:1] != ["title"] or "stray" in kinds:
        return case, "title, then directives only", top[:6], "content escaped its directive (or the title is missing)", drift
    entries = [t[1] for t in top if t[0] == "entry"]
    exp = expected_structure(page)
    if len(entries) != len(exp) or entries[0]["dir"] != "module":
        return case, [x[:2] for x in exp], [(e["dir"], e["arg"]) for e in entries], "top-level directives are not module + one per entry", drift
    for w in exp[0][2]:
        if w not in entries[0]["text"]:
            return case, w, entries[0]["text"][:200], "the module's documentation text is not nested in the module directive", drift
    for e, x in zip(entries[1:], exp[1:]):
        dirname, name, words, kids, kidwords = x
        if e["dir"] != dirname or not e["arg"].startswith(name):
            return case, x[:2], (e["dir"], e["arg"]), "entry directive mismatch", drift
        for w in words:
            if w not in e["text"]:
                return case, w, e["text"][:200], "documentation text is not nested in its entry's directive", drift
            if sum(1 for o in entries if w in o["text"]) != 1:
                return case, w, "appears in several entries", "documentation text appears under another entry", drift
        got_kids = [(c["dir"], c["arg"].split("(")[0]) for c in e["kids"] if c["dir"] in ("py:method", "py:attribute")]
        if got_kids != kids:
            return case, kids, got_kids, "class members are not nested inside their class directive", drift
        members = [c for c in e["kids"] if c["dir"] in ("py:method", "py:attribute")]
        for c, ws in zip(members, kidwords):
            for w in ws:
                if w not in c["text"]:
                    return case, w, c["text"][:200], "a member's documentation text or fields are not nested in the member's own directive", drift
    return None, None, None, None, drift


def _chunk(args):
    chunk = args
    return [(n, one(beh, n)) for n, beh in chunk]


def _init(src):
    lib.CMINX_SRC = src
    lib.use_repo_sources()


def replay(run, behs):
    items = list(enumerate(behs))
    chunks = [items[i::lib.NCPU] for i in range(lib.NCPU)]
    chunks = [c for c in chunks if c]
    with ProcessPoolExecutor(max_workers=lib.NCPU, initializer=_init, initargs=(lib.CMINX_SRC,)) as ex:
        for part in ex.map(_chunk, chunks):
            for n, (case, exp, got, why, drift) in part:
                run.behaviours += 1
                run.count(json.dumps(behs[n]["page"], sort_keys=True))
                if case is not None:
                    run.violation(case, exp, got, why)
                elif drift:
                    run.drifted(drift)
    if behs:
        run.sample({"entries": [[e["k"], [l["w"] for l in e["doc"]]] for e in behs[len(behs) // 2]["page"]]})
