"""Aggregator family (C02 C03 C08 C09 C11): concretiser, real-code runner, projector.

Binding A: TLC (spec/Aggregator.tla under an MC_* configuration) emits abstract programs
with the ideal entries; `concretize` turns a program into CMake text, `run_real` pushes it
through the real Documenter, `page_views` reads the generated page back, `ideal_views`
renders the ideal entries into the same view, and the per-property projections are compared.
"""
import os
import random
import re
import tempfile

from rstparse import Page

OTHER_NAMES = ["message", "include", "if", "endif", "foreach", "endforeach", "list", "add_library",
               "target_link_libraries", "find_package", "string", "return", "definition", "docs", "command", "unset"]
PAT = "^_p_"
TRIGGER = ":keyword"


PREFIX = "_p_"


def subst(s, i):
    return s.replace("@", "n%d" % i).replace("_p_", PREFIX)


def casing(name, rng):
    r = rng.random()
    if r < 0.5:
        return name
    if r < 0.75:
        return name.upper()
    return "".join(ch.upper() if rng.random() < 0.5 else ch for ch in name)


TRIGGER_2W = ":param **kwargs:"     # a trigger of two words (the InputSettings default), used on the settings-file route


def concretize(prog, cmds, seed, trigger=TRIGGER, vary_case=True, layout=None, decoy=None):
    """prog: list of {"ci": int (1-based), "d": bool}; cmds: list of command records.
    Returns (text, meta) where meta[i] = dict(actual command name, lower-cased) per source index (1-based)."""
    rng = random.Random(seed)
    out = []
    meta = {}
    stack = []
    for idx, p in enumerate(prog):
        i = idx + 1
        c = cmds[p["ci"] - 1]
        k = c["k"]
        ind = "  " * len(stack) if k not in ("endfunction", "endmacro", "cpp_end_class") else "  " * max(0, len(stack) - 1)
        if p["d"]:
            lines = ["doc w%d of item %d" % (i, i), "second line w%d" % i]
            if c["ord"] and c["ord"][0] == "dup":
                lines = ["shared doc of dup"]          # two definitions may be identical in every respect
            if c.get("trig"):
                lines.append("%s opts: options w%d" % (trigger, i))
            elif rng.random() < 0.06:
                lines = []                             # an empty doccomment is still a doccomment
            elif decoy:
                lines.append(decoy)                    # shares words with the trigger string without containing it
            if rng.random() < 0.12 and c["k"] not in ("cpp_member", "cpp_constructor", "cpp_attr"):
                # a doccomment that brings an admonition of its own: the entry keeps the note/warning of its kind
                adm = rng.choice(["note", "warning"])
                lines += ["", ".. %s::" % adm, "", "   own %s w%d" % (adm, i)]
            if c["k"] in ("cpp_member", "cpp_constructor"):
                lines.append(":param bb: a hand-written field for a name that only begins like a parameter")
            out.append(ind + "#[[[")
            for ln in lines:
                out.append(ind + "# " + ln)
            out.append(ind + "#]]")
        actual = k
        if k == "other":
            actual = rng.choice(OTHER_NAMES)
        name = casing(actual, rng) if vary_case else actual
        args = [subst(a, i) for a in c["ord"]]
        out.append(ind + "%s(%s)" % (name, " ".join(args)))
        meta[i] = {"name": actual.lower(), "k": k, "d": p["d"], "first_arg": args[0] if args else ""}
        if k in ("function", "macro", "cpp_class"):
            stack.append(k)
        elif k in ("endfunction", "endmacro", "cpp_end_class") and stack:
            stack.pop()
    while stack:   # close what a prefix opened
        k = stack.pop()
        out.append("  " * len(stack) + {"function": "endfunction()", "macro": "endmacro()", "cpp_class": "cpp_end_class()"}[k])
    return "\n".join(out) + "\n", meta


# ---------------------------------------------------------------- real code
_tmpdir = None


def _tmpfile():
    """per-process scratch file below the run's scratch directory (created and removed by check.py)"""
    global _tmpdir
    if _tmpdir is None:
        base = os.environ.get("VERIF_SCRATCH")
        if base and os.path.isdir(base):
            _tmpdir = base
        else:
            _tmpdir = tempfile.mkdtemp(prefix="verif_agg_", dir="/dev/shm" if os.path.isdir("/dev/shm") else None)
    return os.path.join(_tmpdir, "m%d.cmake" % os.getpid())


GENERIC_PATTERN = False     # set per behaviour by the replay: spell the strip pattern as a character class


def strip_pattern():
    """the parameter-name strip pattern for the current PREFIX: literally "^_p_", or - same effect on every name the
    programs use - the generic spelling "^_[^_]+_" (a leading underscore group); the latter only for prefixes of that shape"""
    if GENERIC_PATTERN and PREFIX.startswith("_") and PREFIX.endswith("_") and "_" not in PREFIX[1:-1]:
        return "^_[^_]+_|_s$"
    return "^" + PREFIX + "|_s$"           # a prefix or the suffix "_s" (AggAlphabet.StripTbl)


def make_settings(inc=None, pats=None, trigger=TRIGGER, **rst):
    from cminx.config import Settings, InputSettings, RSTSettings
    kw = {}
    for f, v in (inc or {}).items():
        kw["include_undocumented_" + f] = bool(v)
    pats = pats or {}
    pat = strip_pattern()
    return Settings(input=InputSettings(
        kwargs_doc_trigger_string=trigger,
        function_parameter_name_strip_regex=pat if pats.get("f") else "",
        macro_parameter_name_strip_regex=pat if pats.get("m") else "",
        member_parameter_name_strip_regex=pat if pats.get("x") else "", **kw), rst=RSTSettings(**rst))


def run_real(src, settings, title="t", module="t"):
    """Run the real pipeline on CMake text; returns ("ok", page_text, aggregator) or ("exc", repr, None)."""
    import io
    import contextlib
    import logging
    from cminx.documenter import Documenter
    path = _tmpfile()
    with open(path, "w", encoding="utf-8") as fh:
        fh.write(src)
    logging.disable(logging.CRITICAL)
    err = io.StringIO()
    try:
        with contextlib.redirect_stderr(err), contextlib.redirect_stdout(io.StringIO()):
            d = Documenter(path, title, module, settings)
            w = d.process()
            text = w.to_text()
        return "ok", text, d.aggregator, err.getvalue()
    except BaseException as e:  # SystemExit included: an observation, not a machinery failure
        return "exc", "%s: %s" % (type(e).__name__, str(e)[:200]), None, err.getvalue()


def run_via_main(src, inc, pats, trigger):
    """The same program through the command line: file t.cmake, the settings in a YAML file given with -s, page read
    back from the output directory.  Everything the settings-file route adds (template validation, Settings
    construction in main) is thereby part of what is observed."""
    import shutil
    import yaml
    import naming
    import lib
    base = tempfile.mkdtemp(prefix="viamain_", dir=os.path.dirname(_tmpfile()))
    try:
        os.makedirs(os.path.join(base, "home", ".config", "cminx"))
        with open(os.path.join(base, "t.cmake"), "w", encoding="utf-8") as fh:
            fh.write(src)
        pat = strip_pattern()
        pats = pats or {}
        inp = {"include_undocumented_" + f: bool(v) for f, v in (inc or {}).items()}
        inp.update({"kwargs_doc_trigger_string": trigger,
                    "function_parameter_name_strip_regex": pat if pats.get("f") else "",
                    "macro_parameter_name_strip_regex": pat if pats.get("m") else "",
                    "member_parameter_name_strip_regex": pat if pats.get("x") else ""})
        dflt = yaml.safe_load(open(os.path.join(lib.CMINX_SRC, "cminx", "config_default.yaml")))
        with open(os.path.join(base, "s.yaml"), "w") as fh:
            yaml.safe_dump({"input": inp, "logging": dflt["logging"]}, fh)
        exc, _ = naming.run_main(["-s", "s.yaml", "-o", "out", "t.cmake"], base, os.path.join(base, "home"))
        page = os.path.join(base, "out", "t.rst")
        if exc or not os.path.exists(page):
            return "exc", exc or "no page written", None, ""
        return "ok", open(page, encoding="utf-8").read(), None, ""
    finally:
        shutil.rmtree(base, ignore_errors=True)


# ---------------------------------------------------------------- page -> views
MACRO_NOTE = "This is a macro, and so does not introduce a new scope."
GENERIC_WARN = "This is a generic command invocation. It is not a function or macro definition."
TEST_WARN = "This is a CMakeTest test definition, do not call this manually."
SECTION_WARN = "This is a CMakeTest section definition, do not call this manually."
CTEST_WARN = 'This is a CTest test definition, do not call this manually. Use the "ctest" program to execute this test.'
OPTION_NOTE_KEY = "user-editable option"
MEMBER_MACRO_NOTE = "This member is a macro and so does not introduce a new scope"


def _adm(node, kind):
    return [c.arg for c in node.children if c.name == kind]


def member_view(n):
    v = {"dir": n.name, "arg": n.arg, "macro": MEMBER_MACRO_NOTE in _adm(n, "note"),
         "fields": [list(f) for f in n.fields], "options": [list(o) for o in n.options],
         "doc": [t for t in n.text_lines]}
    return v


def node_view(n):
    """Canonical view of one top-level directive of a page."""
    v = {"dir": n.name, "arg": n.arg, "notes": _adm(n, "note"), "warnings": _adm(n, "warning"),
         "fields": [list(f) for f in n.fields], "doc": list(n.text_lines)}
    if n.name == "function":
        if MACRO_NOTE in v["notes"]:
            v["kind"] = "macro"
        elif GENERIC_WARN in v["warnings"]:
            v["kind"] = "generic"
        elif TEST_WARN in v["warnings"]:
            v["kind"] = "test"
        elif SECTION_WARN in v["warnings"]:
            v["kind"] = "section"
        elif CTEST_WARN in v["warnings"]:
            v["kind"] = "ctest"
        else:
            v["kind"] = "function"
    elif n.name == "data":
        isopt = any(OPTION_NOTE_KEY in " ".join(c.text_lines) for c in n.children if c.name == "note")
        v["kind"] = "option" if isopt else "variable"
    elif n.name == "py:class":
        v["kind"] = "class"
        sect = None
        v["ctors"], v["members"], v["attrs"], v["inner"], v["bases"] = [], [], [], [], None
        v["stray_members"] = []
        docl = []
        for it in n.items:
            if it[0] == "text":
                t = it[1]
                if t == "**Additional Constructors**":
                    sect = "ctors"
                elif t == "**Methods**":
                    sect = "members"
                elif t == "**Attributes**":
                    sect = "attrs"
                elif t == "**Inner classes**":
                    sect = "inner"
                elif sect == "inner" and t.startswith("* "):
                    m = re.match(r"^\* :class:`(.*)`$", t)
                    v["inner"].append(m.group(1) if m else t)
                elif t.startswith("Bases: ") and sect is None and v["bases"] is None:
                    v["bases"] = re.findall(r":class:`([^`]*)`", t)
                else:
                    docl.append(t)
            elif it[0] == "dir":
                c = it[1]
                if c.name in ("py:method", "py:attribute"):
                    mv = member_view(c)
                    want = {"ctors": "py:method", "members": "py:method", "attrs": "py:attribute"}.get(sect)
                    if want == c.name:
                        v[sect].append(mv)
                    else:
                        v["stray_members"].append(mv)
        v["doc"] = docl
        v["bases"] = v["bases"] or []
    elif n.name == "module":
        v["kind"] = "module"
    else:
        v["kind"] = "?" + n.name
    return v


def page_views(text):
    p = Page(text)
    return p, [node_view(n) for n in p.nodes]


# ---------------------------------------------------------------- ideal entries -> views
def _name(e):
    return subst(e["name"], e["src"])


def _ps(e, key="params"):
    return [subst(x, e["src"]) for x in e[key]]


def nows(s):
    return re.sub(r"\s+", "", s)


def ideal_member_view(e):
    if e["k"] == "attr":
        return {"dir": "py:attribute", "arg": _name(e), "macro": False, "fields": [],
                "options": [["value", subst(e["vals"][0], e["src"])]] if e["hasdef"] else []}
    params = _ps(e)
    ptypes = _ps(e, "ptypes")
    sig = "%s(%s%s)" % (_name(e), ", ".join(params), "[, ...]" if "args" in ptypes else "")
    fields = []
    for i in range(min(len(params), len(ptypes))):
        fields.append(["param %s" % params[i], ""])
        fields.append(["type %s" % params[i], ptypes[i]])
    return {"dir": "py:method", "arg": sig, "macro": bool(e["ismacro"]), "fields": fields, "options": []}


def ideal_view(e, meta, byidx):
    k = e["k"]
    v = {"kind": k, "src": e["src"]}
    if k in ("function", "macro"):
        v["dir"] = "function"
        v["arg"] = "%s(%s)" % (_name(e), " ".join(_ps(e) + (["**kwargs"] if e["kw"] else [])))
    elif k == "generic":
        v["dir"] = "function"
        v["arg"] = "%s(%s)" % (meta[e["src"]]["name"], " ".join(nows(x) if x.startswith("(") else x for x in _ps(e)))
    elif k in ("test", "section"):
        v["dir"] = "function"
        v["arg"] = "%s(%s)" % (_name(e), "EXPECTFAIL" if e["expfail"] else "")
    elif k == "ctest":
        v["dir"] = "function"
        v["arg"] = "%s(%s)" % (_name(e), " ".join(_ps(e)))
    elif k in ("variable", "option"):
        v["dir"] = "data"
        v["arg"] = _name(e)
    elif k == "class":
        v["dir"] = "py:class"
        v["arg"] = _name(e)
        v["bases"] = _ps(e)
        v["ctors"] = [ideal_member_view(m) for m in e["ctors"]]
        v["members"] = [ideal_member_view(m) for m in e["members"]]
        v["attrs"] = [ideal_member_view(m) for m in e["attrs"]]
        v["inner"] = [subst(byidx[s]["name"], s) for s in e["inner"]]
    return v


def ideal_views(dump, meta):
    byidx = {}
    for e in dump:
        byidx[e["src"]] = e
    return [ideal_view(e, meta, byidx) for e in dump]


# ---------------------------------------------------------------- projections
def _mem_names(ms):
    return [m["arg"].split("(")[0] for m in ms]


def proj_c02(views):
    out = []
    for v in views:
        if v["kind"] == "module":
            continue
        name = v["arg"].split("(")[0]
        item = [v["kind"], v["dir"], name]
        if v["kind"] == "generic":
            item.append(v["arg"])
        if v["kind"] == "class":
            item.append([_mem_names(v["ctors"]), _mem_names(v["members"]), _mem_names(v["attrs"])])
            if v.get("stray_members"):
                item.append(["stray", _mem_names(v["stray_members"])])
        out.append(item)
    return out


def proj_c03(views):
    return [v["arg"] for v in views if v["kind"] in ("function", "macro")]


def _mv(m, with_doc_fields=True):
    # the field the concretiser writes into member doccomments (":param bb:") is doc text, not a generated field
    # (so is the trigger line ":keyword opts:" / ":param **kwargs:" of a doccomment that carries the kwargs trigger)
    return [m["dir"], m["arg"], m["macro"],
            [f for f in m["fields"] if f[0] not in ("param bb", "keyword opts", "param **kwargs", "param zz")], m["options"]]


def proj_c09(views):
    out = []
    for v in views:
        if v["kind"] != "class":
            continue
        out.append([v["arg"], v["bases"], [_mv(m) for m in v["ctors"]], [_mv(m) for m in v["members"]],
                    [_mv(m) for m in v["attrs"]], v["inner"], [_mv(m) for m in v.get("stray_members", [])]])
    return out


def proj_c11(views):
    return [[v["kind"], v["arg"]] for v in views if v["kind"] in ("test", "section", "ctest")]


# ---- C08: the doccomment-stemming part of a page
def _is_doc(name, meta):
    base = name.split("(")[0]
    m = re.match(r"^n(\d+)$", base)
    if m:
        return int(m.group(1)) in meta and bool(meta[int(m.group(1))]["d"])
    # entries with a fixed name (e.g. 'dup', defined more than once) cannot be attributed to one command by name:
    # they are left out of the C08 projection (C02/C03 judge them)
    return False


def doc_part(views, meta, structural=False):
    """Entries that stem from doccomment-carrying commands; inside classes only the documented members."""
    out = []
    for v in views:
        if v["kind"] == "module" or not _is_doc(v["arg"], meta):
            continue
        if structural:
            item = [v["kind"], v["arg"]]
        else:
            item = [v["kind"], v["arg"], v.get("notes"), v.get("warnings"), v.get("fields"), v.get("doc")]
        if v["kind"] == "class":
            mem = []
            for sect in ("ctors", "members", "attrs"):
                ms = [m for m in v[sect] if _is_doc(m["arg"], meta)]
                mem.append([_mv(m) + ([] if structural else [m.get("doc")]) for m in ms])
            mem.append([n for n in v["inner"] if _is_doc(n, meta)])
            mem.append(v["bases"])
            item.append(mem)
        out.append(item)
    return out


KIND_FLAG = {"class": "cpp_class", "function": "function", "macro": "macro", "test": "ct_add_test",
             "section": "ct_add_section", "ctest": "add_test", "option": "option"}


def undocumented_shown(views, meta):
    """(flag kind, name) of every entry on the page that stems from a command without doccomment."""
    out = []

    def src_of(name):
        m = re.match(r"^n(\d+)$", name.split("(")[0])
        return int(m.group(1)) if m and int(m.group(1)) in meta else None
    for v in views:
        if v["kind"] == "module":
            continue
        s = src_of(v["arg"])
        if s is not None and not meta[s]["d"] and v["kind"] in KIND_FLAG:
            out.append((KIND_FLAG[v["kind"]], meta[s]["k"], s))
        if v["kind"] == "class":
            for sect, fl in (("ctors", "cpp_constructor"), ("members", "cpp_member"), ("attrs", "cpp_attr")):
                for m in v[sect]:
                    s = src_of(m["arg"])
                    if s is not None and not meta[s]["d"]:
                        out.append((fl, meta[s]["k"], s))
    return out


# ---------------------------------------------------------------- C04: layout variants of one abstract program
def items_of(prog, cmds, seed, trigger=TRIGGER, first_line_text=False):
    """layout-free description of the module: list of (kind, payload) in source order"""
    rng = random.Random(seed)
    items = []
    stack = []
    for idx, p in enumerate(prog):
        i = idx + 1
        c = cmds[p["ci"] - 1]
        k = c["k"]
        actual = rng.choice(OTHER_NAMES) if k == "other" else k
        doc = None
        if p["d"]:
            doc = ["doc w%d of item %d" % (i, i), "", "  indented w%d" % i, "form\x0cfeed and line\u2028separator w%d" % i]
            if i % 3 == 0:
                # a doccomment whose text is indented as a whole (renders as a block quote, in every layout)
                doc = ["    deep w%d of item %d" % (i, i), "", "    second deep line w%d" % i]
            if c.get("trig"):
                doc.append("%s opts: options w%d" % (trigger, i))
        if k in ("endfunction", "endmacro", "cpp_end_class") and stack:
            stack.pop()
        items.append({"name": actual, "args": [subst(a, i) for a in c["ord"]], "doc": doc, "depth": len(stack),
                      "first": ("brief w%d" % i) if (first_line_text and doc) else ""})
        if k in ("function", "macro", "cpp_class"):
            stack.append(k)
    while stack:
        k = stack.pop()
        items.append({"name": {"function": "endfunction", "macro": "endmacro", "cpp_class": "cpp_end_class"}[k], "args": [],
                      "doc": None, "depth": len(stack), "first": ""})
    return items


def render_baseline(items):
    out = []
    for it in items:
        if it["doc"] is not None:
            out.append("#[[[" + (" " + it["first"] if it["first"] else ""))
            out += [("# " + l) if l else "#" for l in it["doc"]]
            out.append("#]]")
        out.append("%s(%s)" % (it["name"], " ".join(it["args"])))
    return "\n".join(out) + "\n"


def render_variant(items, trivia, vseed):
    """Same token sequence, different layout: trivia from TLC's catalogue between tokens, doc blocks re-indented,
    command names re-cased.  trivia = {"sep": [...], "gap": [...], "end": [...]} as concrete strings."""
    rng = random.Random(vseed)
    seps = [t for t in trivia["sep"]]
    gaps = trivia["gap"]
    ends = [e for e in trivia["end"] if e]
    out = []

    def sep(must_space):
        t = rng.choice(seps) if rng.random() < 0.7 else " "
        if must_space and not any(ch in t for ch in " \t\n"):
            t = t + " "
        if must_space and t[0] not in " \t\n" and rng.random() < 0.5:
            t = " " + t
        return t
    for it in items:
        for _ in range(rng.randint(0, 2)):
            out.append(rng.choice(gaps))
        ind = "".join(rng.choice(" \t") for _ in range(rng.choice([0, 0, 1, 2, 4, 7, 9])))
        if it["doc"] is not None:
            dind = "".join(rng.choice(" \t") for _ in range(rng.choice([0, 1, 2, 4, 6, 8, 11])))
            out.append(dind + "#[[[" + (" " + it["first"] if it["first"] else "") + "\n")
            for l in it["doc"]:
                out.append(dind + (("# " + l) if l else "#") + "\n")
            out.append(dind + "#]]")
            # between a doccomment and its command: at least a line ending, then any trivia
            # (incl. a line comment that looks like a commented-out call, and a level-1 bracket comment whose lines,
            # the closing one too, begin with '#')
            out.append(rng.choice(["\n", " \n", "\n\n", "\n# a line comment\n", " #[[ bracket ]] \n", "\n#[=[ (\" ]=]\n",
                                   "\n# %s(arg)  <- typical call\n" % it["name"], "\n#[=[\n# commented(out)\n#]=]\n"]))
        name = "".join(ch.upper() if rng.random() < 0.5 else ch.lower() for ch in it["name"])
        out.append(ind + name + rng.choice(["", " ", "\t", "  "]) + "(")
        args = it["args"]
        for j, a in enumerate(args):
            if j == 0:
                out.append(sep(False) if rng.random() < 0.5 else "")
            else:
                out.append(sep(True))
            out.append(a)
        if rng.random() < 0.5:
            t = sep(False)
            # a line comment must not swallow the closing parenthesis
            if "#" in t and not t.endswith("\n") and not t.rstrip().endswith("]"):
                t += "\n"
            out.append(t)
        out.append(")")
        out.append(rng.choice(ends))
    return "".join(out)
