------------------------------- MODULE MC_C08a -------------------------------
EXTENDS Aggregator, AggAlphabet
\* classes (nested), attributes, members with implementing functions, plain functions;
\* the flags of the kinds that occur vary over all 16 combinations
Cmds == <<
  C("cpp_class", <<"@">>), C("cpp_end_class", <<>>),
  C("cpp_attr", <<"C", "@">>),
  C("cpp_member", <<"@", "C", "int">>),
  C("function", <<"@", "self", "a">>),
  C("endfunction", <<>>),
  C("other", <<"hi">>),
  C("cmake_parse_arguments", <<"x", "\"\"", "\"\"", "\"\"">>)      \* keyword arguments of an (undocumented) definition
>>
Pre == <<>>
MCPats == [f |-> FALSE, m |-> FALSE, x |-> FALSE]
ASSUME PrintT(<<"PATS", ToJson(MCPats)>>)
NoDev == {}
CurrentDev == {"D_ClassOffPushesNone"}
Both == {TRUE, FALSE}
Varied == {"cpp_class", "cpp_attr", "cpp_member", "function"}
Flags == {[f \in FlagKinds |-> IF f \in Varied THEN b[f] ELSE TRUE] : b \in [Varied -> BOOLEAN]}
         \cup {[f \in FlagKinds |-> FALSE]}        \* and everything off at once
=============================================================================
