"""C10: Values.tla behaviours (set / option argument lists) replayed through the real pipeline."""
import json
import random
from concurrent.futures import ProcessPoolExecutor

import lib


def sub_of(full, part, concrete):
    """concrete text of `part`, a contiguous sub-sequence of the symbol sequence `full` (one char per symbol)"""
    n = len(part)
    for a in range(0, len(full) - n + 1):
        if full[a:a + n] == part:
            return concrete[a:a + n]
    return None


def one(beh, n, seed):
    import agg
    import lexh
    from rstparse import Page
    rng = random.Random(seed * 1000003 + n)
    name = "n%d" % n
    args = [lexh.concretize(v["t"], rng.random())[0] for v in beh["vals"]]
    # an identifier is a value like any other, also one that is a keyword of CMake's own set() signature
    args = [rng.choice(["CACHE", "PARENT_SCOPE", "FORCE"]) if v["form"] == "ident" and rng.random() < 0.3 else a
            for v, a in zip(beh["vals"], args)]
    cmd = "%s(%s)" % (beh["kind"] if rng.random() < 0.7 else beh["kind"].upper(), " ".join([name] + args))
    doc = "#[[[\n# doc of %s\n#]]\n" % name if beh["doc"] else ""
    place = n % 3
    if place == 0:
        src = doc + cmd + "\n"
    elif place == 1:
        src = "function(outer)\n  " + doc.replace("\n", "\n  ").rstrip(" ") + cmd + "\nendfunction()\n"
    else:
        src = "cpp_class(K)\n" + doc + cmd + "\ncpp_end_class()\nmessage(after)\n"
    status, text, _, err = agg.run_real(src, agg.make_settings())
    case = {"source": src, "features": {"kind": beh["kind"], "n_values": len(args), "forms": [v["form"] for v in beh["vals"]]}}
    if status != "ok":
        return case, "page", status + " " + text, "the pipeline raised"
    nodes = [nd for nd in Page(text).nodes if nd.name == "data" and nd.arg == name]
    if len(nodes) != 1:
        return case, "one data directive for " + name, [nd.arg for nd in Page(text).nodes], "the variable/option entry is missing or duplicated"
    nd = nodes[0]
    fields = dict((k, v) for k, v in nd.fields)
    isopt = any("user-editable option" in " ".join(c.text_lines) for c in nd.children if c.name == "note")
    ideal = beh["ideal"]
    if beh["kind"] == "set":
        if ideal["type"] == "list":
            want_val = " ".join(args)
        elif ideal["type"] == "str":
            # (an identifier is its own value - also where the harness put a CMake keyword in its place)
            want_val = args[0] if beh["vals"][0]["form"] == "ident" else sub_of(beh["vals"][0]["t"], ideal["value"][0], args[0])
        else:
            want_val = fields.get("Default value")      # not demanded for UNSET
        exp = {"option_note": False, "type": ideal["type"], "Default value": want_val}
        got = {"option_note": isopt, "type": fields.get("type"), "Default value": fields.get("Default value")}
    else:
        exp = {"option_note": True, "type": "bool", "Help text": args[0], "Default value": args[1] if len(args) == 2 else "OFF"}
        got = {"option_note": isopt, "type": fields.get("type"), "Help text": fields.get("Help text"), "Default value": fields.get("Default value")}
    if exp != got:
        return case, exp, got, "fields of the variable/option entry differ from what the command states"
    return None


def _chunk(args):
    chunk, seed = args
    return [(n, one(beh, n, seed)) for n, beh in chunk]


def _init(src):
    lib.CMINX_SRC = src
    lib.use_repo_sources()


def replay(run, behs, seed):
    items = list(enumerate(behs))
    chunks = [(items[i::lib.NCPU * 2], seed) for i in range(lib.NCPU * 2)]
    chunks = [c for c in chunks if c[0]]
    with ProcessPoolExecutor(max_workers=lib.NCPU, initializer=_init, initargs=(lib.CMINX_SRC,)) as ex:
        for part in ex.map(_chunk, chunks):
            for n, r in part:
                run.behaviours += 1
                run.count(json.dumps([behs[n]["kind"], behs[n]["doc"], behs[n]["vals"]]))
                if r:
                    case, exp, got, why = r
                    case["obs_equals_impl_model"] = False
                    run.violation(case, exp, got, why)
    if behs:
        run.sample({"kind": behs[3]["kind"], "values": ["".join(v["t"]) for v in behs[3]["vals"]]})


def crlf_cases(run):
    """Modules with CRLF line endings whose values span lines (a quoted argument, a bracket argument, an option's
    help text): the value is stated as written, carriage returns included - whatever newline handling the file is
    read with."""
    import agg
    cases = [("set", 'set(MULTI "line one\r\nline two")', "line one\r\nline two"),
             ("set", "set(BRK [[first\r\nsecond]])", "[[first\r\nsecond]]"),
             ("option", 'option(OPT "help one\r\nhelp two" ON)', '"help one\r\nhelp two"')]
    for kind, cmd, want in cases:
        src = "#[[[\r\n# doc\r\n#]]\r\n" + cmd + "\r\nmessage(after)\r\n"
        status, text, _, _ = agg.run_real(src, agg.make_settings())
        run.count("crlf-value:" + cmd)
        case = {"source": src, "features": {"kind": kind, "crlf": True, "multi_line_value": True}}
        if status != "ok":
            run.violation(case, "page", status + " " + text, "the pipeline raised on a CRLF module with a multi-line value")
        elif want not in text:
            run.violation(case, want, [l for l in text.split("\n") if "Default value" in l or "Help text" in l][:2],
                          "a value that spans lines in a CRLF module is not stated as written")


def twin_cases(run):
    """Two commands of one file whose texts differ only in a blank (set(TW a b) / set(TW ab)): each entry states its own
    command's values - nothing keyed by the text without blanks may be shared between them, nor between two files of
    one process."""
    import agg
    from rstparse import Page
    files = ["#[[[\n# first\n#]]\nset(TW a b)\n#[[[\n# second\n#]]\nset(TW ab)\n",
             "#[[[\n# first\n#]]\noption(WITH_A B \"h\")\n#[[[\n# second\n#]]\noption(WITH_AB \"h\")\n",
             "#[[[\n# other file\n#]]\nset(TW a b)\n", "#[[[\n# other file, one value\n#]]\nset(TW ab)\n",
             "if(WIN32)\n#[[[\n# on\n#]]\noption(SAME \"h1\" ON)\nelse()\n#[[[\n# off\n#]]\noption(SAME \"h2\" OFF)\nendif()\n#[[[\n# v1\n#]]\nset(SAMEV 1)\n#[[[\n# v2\n#]]\nset(SAMEV 2)\n"]
    want = [[("TW", {"Default value": "a b", "type": "list"}), ("TW", {"Default value": "ab", "type": "str"})],
            [("WITH_A", {"Help text": "B", "Default value": '"h"', "type": "bool"}), ("WITH_AB", {"Help text": '"h"', "Default value": "OFF", "type": "bool"})],
            [("TW", {"Default value": "a b", "type": "list"})], [("TW", {"Default value": "ab", "type": "str"})],
            [("SAME", {"Help text": '"h1"', "Default value": "ON", "type": "bool"}), ("SAME", {"Help text": '"h2"', "Default value": "OFF", "type": "bool"}),
             ("SAMEV", {"Default value": "1", "type": "str"}), ("SAMEV", {"Default value": "2", "type": "str"})]]
    for src, exp in zip(files, want):
        status, text, _, _ = agg.run_real(src, agg.make_settings())
        run.count("twin-values:" + src)
        case = {"source": src, "features": {"twin_commands": True}}
        if status != "ok":
            run.violation(case, "page", status + " " + text, "the pipeline raised")
            continue
        got = [(nd.arg, {k: v for k, v in nd.fields if k in ("Default value", "type", "Help text")}) for nd in Page(text).nodes if nd.name == "data"]
        if got != exp:
            run.violation(case, exp, got, "an entry does not state the values of its own command")


def empty_doc_cases(run):
    """A doccomment may be empty: the command is documented all the same - with include_undocumented_option /
    _function off it keeps its entry of its kind (C10: an option() yields a variable entry marked as a cache option)."""
    import agg
    from rstparse import Page
    off = {k: False for k in ("function", "macro", "cpp_class", "cpp_attr", "cpp_constructor", "cpp_member", "ct_add_test", "add_test", "ct_add_section", "option")}
    for doc in ("#[[[\n#]]\n", "#[[[ #]]\n", "#[[[\n#\n#]]\n"):
        src = doc + 'option(EMPTY_DOC "help" ON)\n' + doc + "set(EMPTY_SET v)\n"
        status, text, _, _ = agg.run_real(src, agg.make_settings(off))
        run.count("empty-doc:" + doc)
        case = {"source": src, "inc": off, "features": {"empty_doccomment": True, "flags_off": True}}
        if status != "ok":
            run.violation(case, "page", status + " " + text, "the pipeline raised")
            continue
        got = [(nd.name, nd.arg, dict((k, v) for k, v in nd.fields if k in ("type", "Default value", "Help text"))) for nd in Page(text).nodes if nd.name != "module"]
        exp = [("data", "EMPTY_DOC", {"Help text": '"help"', "Default value": "ON", "type": "bool"}), ("data", "EMPTY_SET", {"Default value": "v", "type": "str"})]
        if got != exp:
            run.violation(case, exp, got, "a command with an empty doccomment does not get the entry of its kind")
