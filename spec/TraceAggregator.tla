-------------------------- MODULE TraceAggregator --------------------------
(***************************************************************************)
(* Binding B for the aggregator: executions of the real                    *)
(* DocumentationAggregator, recorded callback by callback by a test double *)
(* (harness/aggtrace.py), are validated against the Impl operators of      *)
(* AggOps, and the property predicates are evaluated on the OBSERVED state *)
(* against the Req layer.                                                  *)
(*                                                                         *)
(* One TLC run validates a whole batch: Init picks the trace id, each      *)
(* trace is then deterministic.  A mismatch between the model's and the    *)
(* observed post-state is reported (REJ) and the model is re-synchronised  *)
(* with the observation, so the rest of the trace is still checked.        *)
(* Verdict lines are single JSON strings: END per trace with the verdict   *)
(* of every property, REJ per mismatching event.                           *)
(***************************************************************************)
EXTENDS AggOps, Json, IOUtils

\* deviations of the current code that Impl reproduces (see known_findings.json)
CurrentDev == {"D_ClassOffPushesNone"}
Batch == JsonDeserialize(IOEnv.TRACE_FILE)
Traces == Batch.traces

VARIABLES tid, l, st, rq, rqa, rejs
vars == <<tid, l, st, rq, rqa, rejs>>

Tr == Traces[tid]
Inc == Tr.inc
Ev == Tr.events[l]

Init == /\ tid \in 1..Len(Traces) /\ l = 1 /\ st = ImplInit /\ rq = ReqInit /\ rqa = ReqInit /\ rejs = 0

Range(s) == {s[j] : j \in 1..Len(s)}

\* does the model's post-state st1 (from st0) agree with what the recorder saw?
EntAgree(st0, st1, post) ==
  /\ \A j \in 1..Len(st1.ent) :
        (IF j > Len(st0.ent) THEN st1.ent[j] # NoEnt ELSE st1.ent[j] # st0.ent[j])
        => \E c \in Range(post.chg) : c.src = j /\ c.e = st1.ent[j]
  /\ \A c \in Range(post.chg) : c.src <= Len(st1.ent) /\ st1.ent[c.src] = c.e
Agree(st0, st1, post) ==
  /\ st1.top = post.top /\ st1.cls = post.cls /\ st1.defs = post.defs /\ st1.aw = post.aw
  /\ st1.errs = post.errs /\ st1.exc = post.exc
  /\ EntAgree(st0, st1, post)

\* the observed post-state as a model state (used to re-synchronise after a mismatch)
Observed(st0, i, post) ==
  LET n == IF Len(st0.ent) < i THEN i ELSE Len(st0.ent)
      base == [j \in 1..n |-> IF j <= Len(st0.ent) THEN st0.ent[j] ELSE NoEnt]
      ent == [j \in 1..n |-> IF \E c \in Range(post.chg) : c.src = j
                              THEN (CHOOSE c \in Range(post.chg) : c.src = j).e ELSE base[j]]
  IN [ent |-> ent, top |-> post.top, cls |-> post.cls, defs |-> post.defs, aw |-> post.aw,
      errs |-> post.errs, exc |-> post.exc]

Diff(st1, post) ==
  [top |-> <<st1.top, post.top>>, cls |-> <<st1.cls, post.cls>>, defs |-> <<st1.defs, post.defs>>,
   aw |-> <<st1.aw, post.aw>>, errs |-> <<st1.errs, post.errs>>, exc |-> <<st1.exc, post.exc>>,
   model_changed |-> {j \in 1..Len(st1.ent) : j > Len(st.ent) \/ st1.ent[j] # st.ent[j]},
   observed_changed |-> post.chg]

Verdict(ok, P) == IF ~ok THEN "out" ELSE IF P THEN "ok" ELSE "viol"
Balanced(r) == r.dom /\ r.ctx = <<>> /\ r.pend = 0
EndLine(s, r, ra) ==
  LET def == Inc = AllOn IN
  [v |-> "END", tid |-> tid, id |-> Tr.id, rejs |-> rejs, dom |-> r.dom, balanced |-> Balanced(r), dimpl |-> r.dimpl,
   C02 |-> Verdict(Balanced(r) /\ def /\ ~r.dimpl, ProjC02(s.ent, s.top) = ProjC02(r.ent, r.top)),
   C03 |-> Verdict(Balanced(r) /\ def, ProjC03(s.ent, s.top) = ProjC03(r.ent, r.top)),
   C09 |-> Verdict(Balanced(r) /\ def /\ ~r.dimpl, ProjC09(s.ent, s.top) = ProjC09(r.ent, r.top)),
   C11 |-> Verdict(Balanced(r) /\ def /\ ~r.dimpl, ProjC11(s.ent, s.top) = ProjC11(r.ent, r.top)),
   C08 |-> Verdict(Balanced(ra) /\ ~ra.dimpl, ProjC08(s.ent, s.top) = ProjC08(ra.ent, ra.top)),
   refines |-> Verdict(Balanced(r) /\ def /\ ~r.dimpl, StackRefines(s, r)),
   nofail |-> Verdict(Balanced(r) /\ def, s.exc = "" /\ s.errs = 0)]

Consume ==
  /\ l <= Len(Tr.events)
  /\ LET e == Ev
         st1 == IF e.cb = "doc" THEN ImplDoc(st, e.cmd, e.i) ELSE ImplCmd(st, e.cmd, e.i, Inc)
         rq1 == IF e.cb = "inv" THEN ReqStep(rq, e.cmd, e.i, Inc) ELSE rq
         rqa1 == IF e.cb = "inv" THEN ReqStep(rqa, e.cmd, e.i, AllOn) ELSE rqa
         ok == Agree(st, st1, e.post)
         obs == IF ok THEN st1 ELSE Observed(st, e.i, e.post)
     IN /\ st' = obs /\ rq' = rq1 /\ rqa' = rqa1
        /\ rejs' = IF ok THEN rejs ELSE rejs + 1
        /\ (~ok /\ rejs < 3 => PrintT(<<"REJ", ToJson([tid |-> tid, id |-> Tr.id, l |-> l, cb |-> e.cb, k |-> e.cmd.k,
                                                      diff |-> Diff(st1, e.post)])>>))
        /\ (l = Len(Tr.events) =>
              PrintT(<<"END", ToJson(EndLine(obs, rq1, rqa1) @@ [rejs2 |-> IF ok THEN rejs ELSE rejs + 1])>>))
  /\ l' = l + 1
  /\ UNCHANGED tid

Next == Consume
Spec == Init /\ [][Next]_vars
\* every trace must have been consumed to its end: checked by the harness from the END lines
=============================================================================
