------------------------------- MODULE MC_Runs -------------------------------
EXTENDS Runs
MCInputs == {[kind |-> "dir", name |-> "treeA"], [kind |-> "dir", name |-> "treeB"],
             [kind |-> "file", name |-> "solo.cmake"], [kind |-> "file", name |-> "other.cmake"]}
MCSpellings == {"rel", "abs", "trailing", "dot", "dotdot"}    \* dotdot: ".." from a sub-directory, or through "treeA/.."
MCCwds == {"parent", "elsewhere", "root"}
MCLocations == {"locA", "locB"}
MCPerms == {"sorted", "reversed", "shuffled"}
MCHashSeeds == {0, 1, 4711}
G(kind, path, isdir) == [kind |-> kind, path |-> path, isdir |-> isdir]
MCGenInputs == {G("file", "IN/solo.cmake", FALSE), G("flatdir", "IN/flat", TRUE), G("nesteddir", "IN/treeA", TRUE),
                G("missing", "IN/nothing", FALSE), G("syntaxerror", "IN/broken.cmake", FALSE),
                G("linkeddir", "IN/linkA", TRUE), G("colondir", "IN/std:v2", TRUE), G("linkedfile", "IN/linksolo.cmake", FALSE), G("brokentop", "IN/brokentree", TRUE)}
MCExtras == {<<>>, <<"-p", "PFX">>, <<"-e", "sub">>, <<"-s", "SFILE">>, <<"-p", "PFX", "-e", "y.cmake">>, <<"-e", "sub/", "-s", "SFILE", "-p", "P2">>,
             <<"-e", "sub", "-e", "y.cmake">>, <<"-p", "PFX", "-e", "PFX">>, <<"-e", "k", "-e", "k">>,
             \* arguments are forwarded verbatim: a blank or a backslash inside one argument stays inside it
             <<"-p", "two words">>, <<"-e", "s\\[ub\\]/y.cmake", "-p", "a  b">>}
NoDev == {}
CurrentDev == {}
ASSUME C19_Argv
ASSUME EmitGen
=============================================================================
