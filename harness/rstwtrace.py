"""Binding B for the writer: record the RSTWriter API calls of real pipeline runs; TLC replays them (TraceRstWriter.tla)."""
import contextlib
import io
import json
import os
import random
import tempfile

import lib


def record_page(src, settings, title="T", module="m"):
    """run the real Documenter on CMake text with the writer API instrumented; returns a trace dict or None"""
    import agg
    import cminx.rstwriter as rw
    from cminx.documenter import Documenter
    ops = []
    ids = {}

    def wid(w):
        if id(w) not in ids:
            ids[id(w)] = len(ids) + 1
        return ids[id(w)]
    orig = {}

    def wrap(cls, name, fn):
        orig[(cls, name)] = getattr(cls, name)
        setattr(cls, name, fn)
    o_text, o_field, o_bl, o_el, o_dir, o_opt = rw.RSTWriter.text, rw.RSTWriter.field, rw.RSTWriter.bulleted_list, \
        rw.RSTWriter.enumerated_list, rw.RSTWriter.directive, rw.Directive.option

    def text(self, txt):
        lines = [{"lead": len(x) - len(x.lstrip(" ")), "w": x.lstrip(" ")} for x in txt.split("\n")]
        ops.append({"op": "text", "h": wid(self), "txt": lines})
        return o_text(self, txt)

    def field(self, n, v):
        ops.append({"op": "field", "h": wid(self), "name": str(n), "value": str(v)})
        return o_field(self, n, v)

    def bl(self, *items):
        ops.append({"op": "blist", "h": wid(self), "items": [str(x) for x in items]})
        return o_bl(self, *items)

    def el(self, *items):
        ops.append({"op": "elist", "h": wid(self), "items": [str(x) for x in items]})
        return o_el(self, *items)

    def directive(self, name, *arguments):
        d = o_dir(self, name, *arguments)
        ops.append({"op": "directive", "h": wid(self), "name": name, "args": ",".join(map(str, arguments))})
        wid(d)
        return d

    def option(self, name, value=""):
        ops.append({"op": "option", "h": wid(self), "name": str(name), "value": str(value)})
        return o_opt(self, name, value)
    path = agg._tmpfile()
    with open(path, "w", encoding="utf-8") as fh:
        fh.write(src)
    import logging
    logging.disable(logging.CRITICAL)
    rw.RSTWriter.text, rw.RSTWriter.field, rw.RSTWriter.bulleted_list = text, field, bl
    rw.RSTWriter.enumerated_list, rw.RSTWriter.directive, rw.Directive.option = el, directive, option
    try:
        with contextlib.redirect_stderr(io.StringIO()), contextlib.redirect_stdout(io.StringIO()):
            d = Documenter(path, title, module, settings)
            wid(d.writer)
            w = d.process()
            page = w.to_text()
            final_title = w.title
            hchar = w.header_char
    except BaseException:
        return None
    finally:
        rw.RSTWriter.text, rw.RSTWriter.field, rw.RSTWriter.bulleted_list = o_text, o_field, o_bl
        rw.RSTWriter.enumerated_list, rw.RSTWriter.directive, rw.Directive.option = o_el, o_dir, o_opt
    lines = []
    for ln in page.split("\n")[:-1]:
        if ln.strip(" \t") == "":
            lines.append({"sp": 0, "s": ""})
        else:
            sp = len(ln) - len(ln.lstrip(" "))
            lines.append({"sp": sp, "s": ln[sp:]})
    return {"title": final_title, "titlelen": len(final_title), "hchar": hchar, "ops": ops, "page": lines}


def run(run, seed, n):
    import agg
    import aggtrace
    import glob
    rng = random.Random(seed)
    traces = []
    sources = {}
    for i in range(n):
        src = aggtrace.gen_program(rng, rng.randint(4, 30), in_domain=True)
        t = record_page(src, agg.make_settings({k: True for k in aggtrace.FLAG_KINDS}, {"f": False, "m": False, "x": False}))
        if t and all(ord(ch) < 128 for ch in json.dumps(t, ensure_ascii=False)):
            t["id"] = "page-%d-%d" % (seed, i)
            traces.append(t)
            sources[t["id"]] = src
    for f in sorted(glob.glob(lib.REPO + "/tests/test_samples/*.cmake") + glob.glob(lib.REPO + "/tests/examples/*.cmake")):
        src = open(f, encoding="utf-8").read()
        t = record_page(src, agg.make_settings())
        if t and all(ord(ch) < 128 for ch in json.dumps(t, ensure_ascii=False)):
            t["id"] = os.path.relpath(f, lib.REPO)
            traces.append(t)
            sources[t["id"]] = src
    if not traces:
        return
    tmp = tempfile.mkdtemp(prefix="verif_rstw_")
    path = os.path.join(tmp, "batch.json")
    with open(path, "w") as fh:
        json.dump({"traces": traces}, fh)
    try:
        res = lib.run_tlc("TraceRstWriter", "CONSTANT MaxOps = 0\nCONSTANT MaxDepth = 0\nCONSTANT MaxReads = 0\nCONSTANT TextMenu = {}\n"
                          "CONSTANT TitleMenu = {}\nCONSTANT ItemMenu = {}\nCONSTANT OpKinds = {}\nINIT TInit\nNEXT TNext\n",
                          env={"TRACE_FILE": path}, tags=("END",), coverage=False)
    finally:
        import shutil
        shutil.rmtree(tmp, ignore_errors=True)
    ends = {e["id"]: e for e in res.lines.get("END", [])}
    if len(ends) != len(traces):
        raise lib.MachineryError("writer trace validation lost traces: %d END lines for %d traces" % (len(ends), len(traces)))
    run.states += res.distinct
    run.transitions += res.generated
    run.tlc_runs.append({"config": "TraceRstWriter", "distinct_states": res.distinct, "states_generated": res.generated,
                         "wall_s": round(res.wall, 1), "traces": len(traces)})
    st = run.notes.setdefault("writer_traces", {"same": 0, "differ": 0, "c20_predicates_violated": 0})
    for t in traces:
        e = ends[t["id"]]
        run.traces += 1
        run.count("writertrace:" + t["id"])
        if e["same"]:
            st["same"] += 1
        else:
            st["differ"] += 1
            run.drifted({"writer_trace": t["id"], "first_difference_at_line": e["at"], "model": e["model"], "real": e["real"]})
        if not (e["indent_exact"] and e["options_first"] and e["order"]):
            st["c20_predicates_violated"] += 1
            run.violation({"source": sources[t["id"]], "trace": t["id"], "features": {"pipeline_document": True}},
                          "IndentExact / OptionsFirst / OrderPreserved on the document the pipeline built", e,
                          "the document built by the real pipeline violates a C20 predicate of spec/RstWriter.tla")
