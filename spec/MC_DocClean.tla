---------------------------- MODULE MC_DocClean ----------------------------
EXTENDS DocClean
SeqsUpTo(A, n) == UNION {[1..k -> A] : k \in 0..n}
\* quick: two-line bodies over the characters the code names plus a letter; thorough: the full class alphabet
A6 == {"#", "[", "]", " ", "a", ":", "\t"}    \* (seven classes since round 4: a tab inside the text)
A9 == {"#", "[", "]", ":", ".", " ", "a", "1", "e"}
A10 == A9 \cup {"\t"}
Lines6x2 == SeqsUpTo(A6, 2)
Bodies2x2 == SeqsUpTo(Lines6x2, 2)
Lines9x3 == SeqsUpTo(A9, 3)
Bodies1x3 == SeqsUpTo(Lines9x3, 1)
Lines9x2 == SeqsUpTo(A9, 2)
Bodies2x2full == SeqsUpTo(Lines9x2, 2)
Lines10x4 == SeqsUpTo(A10, 4)
Bodies1x4 == SeqsUpTo(Lines10x4, 1)
Bodies3x1 == SeqsUpTo(SeqsUpTo(A9, 1), 3)
IndSmall == {<<>>, <<" ">>, <<" ", " ">>, <<"\t">>, <<" ", " ", " ", " ">>, <<"\t", " ">>}
IndBig == IndSmall \cup {<<" ", " ", " ", " ", " ", " ">>, <<" ", " ", " ", " ", " ", " ", " ", " ">>, <<"\t", "\t">>, <<" ", " ", " ", " ", " ", " ", " ", " ", " ", " ", " ", " ">>}
NoFirst == {<<>>}
\* text on the opening line: plain, and the @module forms ("@" stands for the literal "@module")
SomeFirst == {<<>>, <<" ", "a">>, <<" ", "@">>, <<" ", "@", " ", "a">>, <<"a", "a">>,
              <<"a", " ", "a">>, <<" ", "a", "\t", "a">>}       \* text with a blank / a tab inside: what the indentation consists of
Hash == {"hash"}
BothLeaders == {"hash", "none"}
NoDev == {}
CurrentDev == {}
=============================================================================
