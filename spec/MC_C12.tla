------------------------------- MODULE MC_C12 -------------------------------
EXTENDS Naming
F(rel, stem, ext) == [rel |-> rel, stem |-> stem, ext |-> ext]
MCFiles == { F(<<"x.cmake">>, "x", ".cmake"), F(<<"a", "x.cmake">>, "x", ".cmake"),
             F(<<"a", "b", "Y.CMAKE">>, "Y", ".CMAKE"), F(<<"a", "d.e-f.cmake">>, "d.e-f", ".cmake"),
             F(<<"x.cmake.cmake">>, "x.cmake", ".cmake"),
             F(<<"a", "lnk.cmake">>, "lnk", ".cmake") }      \* materialised as a symbolic link to ../x.cmake
MCSeps == {".", "::", "/", "-"}
MCPrefixSrcs == {"absent", "cli", "config"}
MCSpellings == {"name", "trailing", "dot", "abs"}
MCModes == {"dir", "single"}
MCModDocs == {[kind |-> "absent", body |-> FALSE], [kind |-> "unnamed", body |-> TRUE], [kind |-> "unnamed", body |-> FALSE],
              [kind |-> "named", body |-> TRUE], [kind |-> "named", body |-> FALSE]}
MCHeaders == {<<"#">>, <<"=", "-">>, <<"~">>}
MCBefores == {"none", "dir", "file"}
SharedSettings == {"D_SettingsSharedAcrossInputs"}
NoDev == {}
CurrentDev == {}
=============================================================================
