-------------------------------- MODULE Runs --------------------------------
(***************************************************************************)
(* One operating-system process running cminx.main() as a state machine    *)
(* (C17), and the CMake wrapper cminx_gen_rst() (C19).                     *)
(*                                                                         *)
(* C17: main() builds ONE Settings object and calls document() for every   *)
(* input in turn.  document() deep-copies it and writes the default prefix *)
(* into the copy.  The channels through which one input could influence    *)
(* another, or the location could influence the output, are explicit:      *)
(*   shared.prefix  - the Settings object all inputs share                 *)
(*   spelling / cwd / location of the input path                           *)
(*   order of directory listings, hash seed (sorted() makes them moot)     *)
(* The page of an input is summarised by [prefix used, path tokens].       *)
(*                                                                         *)
(* C19: cminx_gen_rst(input output extra...) builds an argument vector and *)
(* runs the executable; a non-zero status is fatal.                        *)
(***************************************************************************)
EXTENDS Integers, Sequences, FiniteSets, TLC, Json

CONSTANTS Dev,
          InputMenu,     \* set of inputs: [kind: "dir"|"file", name]
          MaxInputs,
          Spellings, Cwds, Locations, Perms, HashSeeds,
          GenInputs,     \* C19: kinds of input handed to cminx_gen_rst
          ExtraMenu      \* C19: extra-argument lists

None == "<none>"
VARIABLES desc,     \* run descriptor: how and where the process is started
          inputs,   \* the inputs on the command line, in order
          i,        \* main()'s loop index
          shared,   \* the Settings object built by main(): [prefix]
          pages,    \* per processed input: what its pages are made of
          pc
vars == <<desc, inputs, i, shared, pages, pc>>

Init ==
  /\ \E sp \in Spellings, cwd \in Cwds, loc \in Locations, pm \in Perms, hs \in HashSeeds, rep \in {1, 2}, pfx \in {None, "PFX"} :
        desc = [spelling |-> sp, cwd |-> cwd, location |-> loc, perm |-> pm, hashseed |-> hs, repeat |-> rep, prefix |-> pfx]
  /\ \E n \in 1..MaxInputs : \E s \in [1..n -> InputMenu] :
        /\ \A a, b \in 1..n : a # b => s[a].name # s[b].name
        \* at most one directory: two directory inputs both write <out>/index.rst (colliding output paths are out of scope)
        /\ Cardinality({a \in 1..n : s[a].kind = "dir"}) <= 1
        /\ inputs = s
  /\ i = 1 /\ shared = [prefix |-> desc.prefix] /\ pages = <<>> /\ pc = "main"

\* document(input): deep copy, default prefix written into the copy, pages derived from relative paths
Document ==
  /\ pc = "main" /\ i <= Len(inputs)
  /\ LET inp == inputs[i]
         defaultPrefix == IF inp.kind = "dir" THEN inp.name ELSE None
         pfx == IF shared.prefix # None THEN shared.prefix ELSE defaultPrefix
     IN /\ pages' = Append(pages, [input |-> inp.name, prefix |-> pfx,
                                   \* titles come from relative paths: no trace of cwd, spelling or location
                                   leak |-> IF "D_LocationInTitle" \in Dev THEN <<desc.location, desc.spelling>> ELSE <<>>,
                                   order |-> IF "D_UnsortedListing" \in Dev THEN desc.perm ELSE "sorted"])
        \* without the deep copy the default prefix of a directory would stick to the shared object
        /\ shared' = IF "D_NoDeepCopy" \in Dev /\ shared.prefix = None /\ inp.kind = "dir"
                     THEN [shared EXCEPT !.prefix = pfx] ELSE shared
  /\ i' = i + 1 /\ UNCHANGED <<desc, inputs, pc>>
Exit == /\ pc = "main" /\ i > Len(inputs) /\ pc' = "done" /\ UNCHANGED <<desc, inputs, i, shared, pages>>
Next == Document \/ Exit
Spec == Init /\ [][Next]_vars

\* C17: what an input's pages are made of depends on the input and the settings only
Ideal(inp) == [input |-> inp.name, prefix |-> IF desc.prefix # None THEN desc.prefix ELSE IF inp.kind = "dir" THEN inp.name ELSE None,
               leak |-> <<>>, order |-> "sorted"]
C17_FunctionOfInputAndSettings == \A j \in 1..Len(pages) : pages[j] = Ideal(inputs[j])
C17_SharedSettingsUntouched == shared.prefix = desc.prefix
Emit == pc = "done" => PrintT(<<"BEH", ToJson([desc |-> desc, inputs |-> inputs])>>)

\* ---------------------------------------------------------------- C19: cminx_gen_rst
GenArgv(input, extra) ==
  <<"EXE", input.path>> \o (IF input.isdir THEN <<"-r">> ELSE <<>>) \o extra \o <<"-o", "OUT">>
\* the command line the statement prescribes: input, -o output, the extra arguments verbatim, -r iff directory
IdealArgs(input, extra) == [positional |-> <<input.path>>, out |-> "OUT", recursive |-> input.isdir, extra |-> extra]
ParseArgv(a) ==   \* how the argument vector reads back (what the harness compares the logged argv with)
  [positional |-> <<a[2]>>, out |-> a[Len(a)],
   recursive |-> (Len(a) >= 3 /\ a[3] = "-r"),
   extra |-> SubSeq(a, IF Len(a) >= 3 /\ a[3] = "-r" THEN 4 ELSE 3, Len(a) - 2)]
C19_Argv == \A g \in GenInputs, x \in ExtraMenu : /\ ParseArgv(GenArgv(g, x)) = IdealArgs(g, x)
                                                  /\ GenArgv(g, x)[Len(GenArgv(g, x)) - 1] = "-o"
\* execute_process(... COMMAND_ERROR_IS_FATAL ANY): the CMake call fails iff the executable does
GenOutcome(status) == IF status # 0 THEN "fatal" ELSE "continues"
EmitGen == PrintT(<<"GEN", ToJson({[input |-> g, extra |-> x, argv |-> GenArgv(g, x)] : g \in GenInputs, x \in ExtraMenu})>>)
=============================================================================
