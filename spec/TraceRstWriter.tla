--------------------------- MODULE TraceRstWriter ---------------------------
(***************************************************************************)
(* Binding B for the writer: the calls the real pipeline makes on          *)
(* RSTWriter / Directive objects while rendering a module (recorded by a   *)
(* proxy, harness/rstwtrace.py) are replayed on the RstWriter model, and   *)
(* the serialisation the model predicts, Lines(0) rendered to text, is     *)
(* compared line by line with the page the real to_text() returned.        *)
(* The C20 invariants are evaluated on the document the calls built.       *)
(***************************************************************************)
EXTENDS RstWriter, IOUtils

Batch == JsonDeserialize(IOEnv.TRACE_FILE)
Traces == Batch.traces

VARIABLES tid, l, hmap, status
tvars == <<tid, l, hmap, status>>
Tr == Traces[tid]

TInit == /\ tid \in 1..Len(Traces) /\ l = 1 /\ status = "run"
         /\ nodes = <<>> /\ outs = <<>> /\ nread = 0 /\ hist = <<>>
         /\ title = [id |-> Traces[tid].title, len |-> Traces[tid].titlelen]
         /\ hmap = <<>>       \* recorder's writer ids (1 = root) -> node index (0 = root)

H(id) == IF id = 1 THEN 0 ELSE hmap[id - 1]
\* one recorded API call
TCall ==
  /\ status = "run" /\ l <= Len(Tr.ops)
  /\ LET o == Tr.ops[l]
         h == H(o.h)
         n == Len(nodes) + 1
     IN /\ nodes' = CASE o.op = "directive" -> Append(nodes, [k |-> "dir", par |-> h, ind |-> Indent(h), opts |-> <<>>, tag |-> <<o.name, o.args>>])
                      [] o.op = "text" -> Append(nodes, [k |-> "para", par |-> h, ind |-> Indent(h), txt |-> o.txt])
                      [] o.op = "field" -> Append(nodes, [k |-> "field", par |-> h, ind |-> Indent(h), tag |-> <<o.name, o.value>>])
                      [] o.op = "blist" -> Append(nodes, [k |-> "blist", par |-> h, ind |-> Indent(h), items |-> o.items])
                      [] o.op = "elist" -> Append(nodes, [k |-> "elist", par |-> h, ind |-> Indent(h), items |-> o.items])
                      [] o.op = "option" -> [nodes EXCEPT ![h].opts = Append(@, <<o.name, o.value>>)]
        \* the recorder numbers writers in creation order: the new directive is writer Len(hmap) + 2
        /\ hmap' = IF o.op = "directive" THEN Append(hmap, n) ELSE hmap
  /\ l' = l + 1 /\ UNCHANGED <<tid, status, title, hist, outs, nread>>

Rep(c, k) == LET F[j \in 0..k] == IF j = 0 THEN "" ELSE F[j-1] \o c IN F[k]
Num(j) == CASE j = 1 -> "1" [] j = 2 -> "2" [] j = 3 -> "3" [] j = 4 -> "4" [] j = 5 -> "5" [] j = 6 -> "6" [] j = 7 -> "7" [] j = 8 -> "8" [] OTHER -> "9"
\* a model line as [sp, s]: leading spaces and the text after them
LineText(ln) ==
  LET t == ln.t IN
  CASE t[1] = "blank" -> [sp |-> 0, s |-> ""]
    [] t[1] = "over" -> [sp |-> 0, s |-> Rep(Tr.hchar, t[2])]
    [] t[1] = "title" -> [sp |-> 0, s |-> t[2]]
    [] t[1] = "dirhead" -> [sp |-> ln.sp, s |-> ".. " \o nodes[t[2]].tag[1] \o ":: " \o nodes[t[2]].tag[2]]
    [] t[1] = "option" -> [sp |-> ln.sp, s |-> ":" \o nodes[t[2]].opts[t[3]][1] \o ": " \o nodes[t[2]].opts[t[3]][2]]
    [] t[1] = "field" -> [sp |-> ln.sp, s |-> ":" \o nodes[t[2]].tag[1] \o ": " \o nodes[t[2]].tag[2]]
    [] t[1] = "para" -> IF t[5] = "" THEN [sp |-> 0, s |-> ""] ELSE [sp |-> ln.sp + t[4], s |-> t[5]]
    [] t[1] = "blist" -> [sp |-> ln.sp, s |-> "* " \o t[4]]
    [] t[1] = "elist" -> [sp |-> ln.sp, s |-> Num(t[3]) \o ". " \o t[4]]
\* serialise once (a state variable holds an evaluated value; a LET-bound function would be re-evaluated per line)
TRender == /\ status = "run" /\ l = Len(Tr.ops) + 1
           /\ outs' = <<Lines(0)>> /\ status' = "rendered"
           /\ UNCHANGED <<tid, l, hmap, nodes, title, hist, nread>>

TFinish ==
  /\ status = "rendered"
  /\ LET P == [j \in 1..Len(outs[1]) |-> LineText(outs[1][j])]
         O == Tr.page
         same == Len(P) = Len(O) /\ \A j \in 1..Len(P) : P[j].sp = O[j].sp /\ P[j].s = O[j].s
         firstDiff == IF same THEN 0 ELSE
                        IF \E j \in 1..Len(P) : j <= Len(O) /\ (P[j].sp # O[j].sp \/ P[j].s # O[j].s)
                        THEN CHOOSE j \in 1..Len(P) : /\ j <= Len(O) /\ (P[j].sp # O[j].sp \/ P[j].s # O[j].s)
                                                      /\ \A k \in 1..(j-1) : P[k].sp = O[k].sp /\ P[k].s = O[k].s
                        ELSE (IF Len(P) < Len(O) THEN Len(P) ELSE Len(O)) + 1
     IN PrintT(<<"END", ToJson([tid |-> tid, id |-> Tr.id, same |-> same, at |-> firstDiff, lines |-> Len(O),
                                model |-> IF same \/ firstDiff > Len(P) THEN [sp |-> 0, s |-> ""] ELSE P[firstDiff],
                                real |-> IF same \/ firstDiff > Len(O) THEN [sp |-> 0, s |-> ""] ELSE O[firstDiff],
                                \* IndentExact / OrderPreserved are consequences of Lines() once the writers' indent attribute is
                                \* the structural depth; they are model-checked in MC_C20 and would be quadratic here
                                indent_exact |-> IndentIsDepth, options_first |-> OptionsFirst, order |-> TRUE,
                                indent_is_depth |-> IndentIsDepth])>>)
  /\ status' = "done" /\ UNCHANGED <<tid, l, hmap, nodes, title, hist, outs, nread>>

TNext == TCall \/ TRender \/ TFinish
=============================================================================
